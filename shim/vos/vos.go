// Package vos stands in for package os in the rewritten reftable sources
// (overlaid as github.com/google/reftable/zz_verif/vos; Go 1.12 syntax, no logic).
package vos

import (
	"io"
	"io/fs"
	"os"
	"time"

	"github.com/google/reftable/zz_verif/rt"
)

type FileInfo = os.FileInfo
type FileMode = os.FileMode
type PathError = os.PathError
type LinkError = os.LinkError
type DirEntry = os.DirEntry

const (
	O_RDONLY = os.O_RDONLY
	O_WRONLY = os.O_WRONLY
	O_RDWR   = os.O_RDWR
	O_APPEND = os.O_APPEND
	O_CREATE = os.O_CREATE
	O_EXCL   = os.O_EXCL
	O_SYNC   = os.O_SYNC
	O_TRUNC  = os.O_TRUNC

	ModePerm = os.ModePerm
	ModeDir  = os.ModeDir
)

var (
	ErrNotExist = os.ErrNotExist
	ErrExist    = os.ErrExist
	ErrClosed   = os.ErrClosed
	ErrInvalid  = os.ErrInvalid
	Stderr      = os.Stderr
	Stdout      = os.Stdout
	Args        = os.Args
)

func IsExist(err error) bool    { return os.IsExist(err) }
func IsNotExist(err error) bool { return os.IsNotExist(err) }
func Getpid() int               { return os.Getpid() }
func Getenv(k string) string    { return os.Getenv(k) }
func Exit(c int)                { os.Exit(c) }

// File wraps either a real *os.File (pass-through mode) or an engine file.
type File struct {
	real *os.File
	impl rt.File
}

func wrapReal(f *os.File, err error) (*File, error) {
	if err != nil {
		return nil, err
	}
	return &File{real: f}, nil
}

func wrapImpl(f rt.File, err error) (*File, error) {
	if err != nil {
		return nil, err
	}
	return &File{impl: f}, nil
}

// WrapImpl is used by vioutil.
func WrapImpl(f rt.File, err error) (*File, error) { return wrapImpl(f, err) }

// WrapReal is used by vioutil.
func WrapReal(f *os.File, err error) (*File, error) { return wrapReal(f, err) }

func OpenFile(name string, flag int, perm FileMode) (*File, error) {
	if rt.E != nil {
		return wrapImpl(rt.E.OpenFile(name, flag, perm))
	}
	return wrapReal(os.OpenFile(name, flag, perm))
}

func Open(name string) (*File, error) { return OpenFile(name, O_RDONLY, 0) }

func Create(name string) (*File, error) {
	return OpenFile(name, O_RDWR|O_CREATE|O_TRUNC, 0666)
}

func CreateTemp(dir, pattern string) (*File, error) {
	if rt.E != nil {
		return wrapImpl(rt.E.TempFile(dir, pattern))
	}
	return wrapReal(os.CreateTemp(dir, pattern))
}

func Rename(oldpath, newpath string) error {
	if rt.E != nil {
		return rt.E.Rename(oldpath, newpath)
	}
	return os.Rename(oldpath, newpath)
}

func Remove(name string) error {
	if rt.E != nil {
		return rt.E.Remove(name)
	}
	return os.Remove(name)
}

func Link(oldname, newname string) error {
	if rt.E != nil {
		return rt.E.Link(oldname, newname)
	}
	return os.Link(oldname, newname)
}

func Stat(name string) (FileInfo, error) {
	if rt.E != nil {
		return rt.E.Stat(name)
	}
	return os.Stat(name)
}

func Lstat(name string) (FileInfo, error) { return Stat(name) }

func Truncate(name string, size int64) error {
	if rt.E != nil {
		return rt.E.Truncate(name, size)
	}
	return os.Truncate(name, size)
}

func ReadFile(name string) ([]byte, error) {
	if rt.E != nil {
		return rt.E.ReadFile(name)
	}
	return os.ReadFile(name)
}

func WriteFile(name string, data []byte, perm FileMode) error {
	if rt.E != nil {
		return rt.E.WriteFile(name, data, perm)
	}
	return os.WriteFile(name, data, perm)
}

// ReadDir lists the stack directory (entries sorted by name).
func ReadDir(name string) ([]DirEntry, error) {
	if rt.E != nil {
		fis, err := rt.E.ReadDir(name)
		if err != nil {
			return nil, err
		}
		out := make([]DirEntry, len(fis))
		for i, fi := range fis {
			out[i] = fs.FileInfoToDirEntry(fi)
		}
		return out, nil
	}
	return os.ReadDir(name)
}

func RemoveAll(name string) error {
	if rt.E != nil {
		if err := rt.E.Remove(name); err != nil && !os.IsNotExist(err) {
			return err
		}
		return nil
	}
	return os.RemoveAll(name)
}

func Chmod(name string, mode FileMode) error {
	if rt.E != nil {
		_, err := rt.E.Stat(name)
		return err
	}
	return os.Chmod(name, mode)
}

func IsPermission(err error) bool { return os.IsPermission(err) }
func IsTimeout(err error) bool    { return os.IsTimeout(err) }
func TempDir() string             { return os.TempDir() }
func Hostname() (string, error)   { return "verif", nil }

var ErrPermission = os.ErrPermission

func MkdirAll(path string, perm FileMode) error {
	if rt.E != nil {
		return nil
	}
	return os.MkdirAll(path, perm)
}

func Mkdir(path string, perm FileMode) error {
	if rt.E != nil {
		return nil
	}
	return os.Mkdir(path, perm)
}

func (f *File) Write(b []byte) (int, error) {
	if f.impl != nil {
		return f.impl.Write(b)
	}
	return f.real.Write(b)
}

func (f *File) WriteString(s string) (int, error) { return f.Write([]byte(s)) }

func (f *File) Read(b []byte) (int, error) {
	if f.impl != nil {
		return f.impl.Read(b)
	}
	return f.real.Read(b)
}

func (f *File) ReadAt(b []byte, off int64) (int, error) {
	if f.impl != nil {
		return f.impl.ReadAt(b, off)
	}
	return f.real.ReadAt(b, off)
}

func (f *File) Close() error {
	if f == nil {
		return ErrInvalid
	}
	if f.impl != nil {
		return f.impl.Close()
	}
	return f.real.Close()
}

func (f *File) Name() string {
	if f.impl != nil {
		return f.impl.Name()
	}
	return f.real.Name()
}

func (f *File) Stat() (FileInfo, error) {
	if f.impl != nil {
		return f.impl.Stat()
	}
	return f.real.Stat()
}

func (f *File) Truncate(size int64) error {
	if f.impl != nil {
		return f.impl.Truncate(size)
	}
	return f.real.Truncate(size)
}

func (f *File) Seek(offset int64, whence int) (int64, error) {
	if f.impl != nil {
		return f.impl.Seek(offset, whence)
	}
	return f.real.Seek(offset, whence)
}

func (f *File) WriteAt(b []byte, off int64) (int, error) {
	if f.impl != nil {
		return f.impl.WriteAt(b, off)
	}
	return f.real.WriteAt(b, off)
}

func (f *File) Sync() error {
	if f.impl != nil {
		return f.impl.Sync()
	}
	return f.real.Sync()
}

var _ io.ReaderAt = (*File)(nil)
var _ = time.Now
