// Package rt is the seam between the rewritten reftable sources and the
// verification engine. It is overlaid into the reftable module as
// github.com/google/reftable/zz_verif/rt and therefore written in Go 1.12 syntax.
// It contains no logic: when E is nil the shims pass through to the real
// os/ioutil/time/rand packages.
package rt

import (
	"os"
	"reflect"
	"sort"
	"time"
)

// File is what an open file looks like to the code under test.
type File interface {
	Write(b []byte) (int, error)
	Read(b []byte) (int, error)
	ReadAt(b []byte, off int64) (int, error)
	Close() error
	Name() string
	Stat() (os.FileInfo, error)
	Sync() error
	Truncate(size int64) error
	Seek(offset int64, whence int) (int64, error)
	WriteAt(b []byte, off int64) (int, error)
}

// Env owns every source of nondeterminism the stack code can see.
type Env interface {
	OpenFile(name string, flag int, perm os.FileMode) (File, error)
	Rename(oldpath, newpath string) error
	Remove(name string) error
	ReadFile(name string) ([]byte, error)
	WriteFile(name string, data []byte, perm os.FileMode) error
	TempFile(dir, pattern string) (File, error)
	ReadDir(dir string) ([]os.FileInfo, error)
	Stat(name string) (os.FileInfo, error)
	Link(oldname, newname string) error
	Truncate(name string, size int64) error
	Now() time.Time
	Sleep(d time.Duration)
	Rand63() int64
	// MapOrder may permute the sorted key list of a ranged-over map.
	MapOrder(keys []string) []string
}

// Coop is implemented by environments that run the code under test as cooperatively scheduled
// processes; the sync shim turns blocking operations into visible waits through it.
type Coop interface {
	// WaitUntil is a scheduling point; the caller runs on only once ready() holds.
	WaitUntil(kind string, ready func() bool)
	// Note records a non-blocking synchronisation operation.
	Note(kind string)
}

// Sched returns the cooperative scheduler, or nil when the code runs on real goroutines.
func Sched() Coop {
	if E == nil {
		return nil
	}
	c, _ := E.(Coop)
	return c
}

// E is installed by the engine before any code under test runs.
var E Env

// MapKeys returns the keys of a map with string keys in the order the
// environment decides (sorted when no environment is installed).
func MapKeys(m interface{}) []string {
	v := reflect.ValueOf(m)
	if v.Kind() != reflect.Map {
		panic("rt.MapKeys: not a map")
	}
	ks := v.MapKeys()
	out := make([]string, 0, len(ks))
	for _, k := range ks {
		if k.Kind() != reflect.String {
			panic("rt.MapKeys: key type is not string")
		}
		out = append(out, k.String())
	}
	sort.Strings(out)
	if E != nil {
		return E.MapOrder(out)
	}
	return out
}
