// Package vrand stands in for math/rand in the rewritten reftable sources.
// With an environment installed every draw is an environment answer
// (a function of the drawing process and its own history).
package vrand

import (
	"math/rand"

	"github.com/google/reftable/zz_verif/rt"
)

type Source = rand.Source

func NewSource(seed int64) Source { return rand.NewSource(seed) }

type Rand struct {
	real *rand.Rand
}

func New(src Source) *Rand { return &Rand{real: rand.New(src)} }

var global = New(NewSource(1))

func (r *Rand) Int63() int64 {
	if rt.E != nil {
		return rt.E.Rand63()
	}
	return r.real.Int63()
}

func (r *Rand) Uint32() uint32 { return uint32(r.Int63() >> 31) }
func (r *Rand) Uint64() uint64 { return uint64(r.Int63())>>31 | uint64(r.Int63())<<32 }
func (r *Rand) Int31() int32   { return int32(r.Int63() >> 32) }
func (r *Rand) Int() int       { return int(uint(r.Int63())) }

func (r *Rand) Int63n(n int64) int64 {
	if n <= 0 {
		panic("invalid argument to Int63n")
	}
	return r.Int63() % n
}

func (r *Rand) Int31n(n int32) int32 { return int32(r.Int63n(int64(n))) }
func (r *Rand) Intn(n int) int       { return int(r.Int63n(int64(n))) }
func (r *Rand) Float64() float64     { return float64(r.Int63n(1<<53)) / (1 << 53) }
func (r *Rand) Seed(seed int64)      {}

func Int63() int64         { return global.Int63() }
func Uint32() uint32       { return global.Uint32() }
func Uint64() uint64       { return global.Uint64() }
func Int31() int32         { return global.Int31() }
func Int() int             { return global.Int() }
func Int63n(n int64) int64 { return global.Int63n(n) }
func Int31n(n int32) int32 { return global.Int31n(n) }
func Intn(n int) int       { return global.Intn(n) }
func Float64() float64     { return global.Float64() }
func Seed(seed int64)      {}
