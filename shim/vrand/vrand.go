// Package vrand stands in for math/rand in the rewritten reftable sources.
// With an environment installed every draw is an environment answer
// (a function of the drawing process and its own history).
package vrand

import (
	"math/rand"

	"github.com/google/reftable/zz_verif/rt"
)

type Source = rand.Source

// seedSource remembers the seed it was made from.
type seedSource struct {
	rand.Source
	seed int64
}

func NewSource(seed int64) Source { return &seedSource{Source: rand.NewSource(seed), seed: seed} }

// Rand is a generator. Under an environment there are two kinds:
//   - a generator that already existed when the environment was installed (the package-level ones, seeded
//     from the clock at start-up): every draw is an environment answer, a function of the drawing process
//     and its own history - distinct processes never draw the same value;
//   - a generator made from an explicit seed WHILE the code under test runs: it is what it is in reality, a
//     deterministic function of its seed - two generators made from the same seed yield the same sequence
//     (the program's own doing, not the environment's).
type Rand struct {
	real   *rand.Rand
	seeded bool
	seed   int64
	n      uint64
}

func New(src Source) *Rand {
	r := &Rand{real: rand.New(src)}
	if ss, ok := src.(*seedSource); ok && rt.E != nil {
		r.seeded, r.seed = true, ss.seed
	}
	return r
}

var global = New(NewSource(1))

func mix(seed int64, n uint64) int64 {
	x := uint64(seed)*0x9e3779b97f4a7c15 + n*0xbf58476d1ce4e5b9
	x ^= x >> 30
	x *= 0xbf58476d1ce4e5b9
	x ^= x >> 27
	x *= 0x94d049bb133111eb
	x ^= x >> 31
	return int64(x >> 1)
}

func (r *Rand) Int63() int64 {
	if rt.E != nil {
		if r.seeded {
			r.n++
			return mix(r.seed, r.n)
		}
		return rt.E.Rand63()
	}
	return r.real.Int63()
}

func (r *Rand) Uint32() uint32 { return uint32(r.Int63() >> 31) }
func (r *Rand) Uint64() uint64 { return uint64(r.Int63())>>31 | uint64(r.Int63())<<32 }
func (r *Rand) Int31() int32   { return int32(r.Int63() >> 32) }
func (r *Rand) Int() int       { return int(uint(r.Int63())) }

func (r *Rand) Int63n(n int64) int64 {
	if n <= 0 {
		panic("invalid argument to Int63n")
	}
	return r.Int63() % n
}

func (r *Rand) Int31n(n int32) int32 { return int32(r.Int63n(int64(n))) }
func (r *Rand) Intn(n int) int       { return int(r.Int63n(int64(n))) }
func (r *Rand) Float64() float64     { return float64(r.Int63n(1<<53)) / (1 << 53) }
func (r *Rand) Seed(seed int64) {
	if rt.E != nil {
		r.seeded, r.seed, r.n = true, seed, 0
	}
	r.real.Seed(seed)
}

func Int63() int64         { return global.Int63() }
func Uint32() uint32       { return global.Uint32() }
func Uint64() uint64       { return global.Uint64() }
func Int31() int32         { return global.Int31() }
func Int() int             { return global.Int() }
func Int63n(n int64) int64 { return global.Int63n(n) }
func Int31n(n int32) int32 { return global.Int31n(n) }
func Intn(n int) int       { return global.Intn(n) }
func Float64() float64     { return global.Float64() }
func Seed(seed int64)      {}
