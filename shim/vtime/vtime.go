// Package vtime stands in for package time in the rewritten reftable sources.
package vtime

import (
	"time"

	"github.com/google/reftable/zz_verif/rt"
)

type Time = time.Time
type Duration = time.Duration
type Month = time.Month
type Location = time.Location

const (
	Nanosecond  = time.Nanosecond
	Microsecond = time.Microsecond
	Millisecond = time.Millisecond
	Second      = time.Second
	Minute      = time.Minute
	Hour        = time.Hour
)

var UTC = time.UTC

func Now() Time {
	if rt.E != nil {
		return rt.E.Now()
	}
	return time.Now()
}

func Sleep(d Duration) {
	if rt.E != nil {
		rt.E.Sleep(d)
		return
	}
	time.Sleep(d)
}

func Since(t Time) Duration { return Now().Sub(t) }
func Until(t Time) Duration { return t.Sub(Now()) }

func Unix(sec, nsec int64) Time { return time.Unix(sec, nsec) }

func Date(year int, month Month, day, hour, min, sec, nsec int, loc *Location) Time {
	return time.Date(year, month, day, hour, min, sec, nsec, loc)
}

// After returns a channel that is already due: under the controlled clock a wait is a clock jump.
func After(d Duration) <-chan Time {
	Sleep(d)
	c := make(chan Time, 1)
	c <- Now()
	return c
}

const (
	RFC3339     = time.RFC3339
	RFC3339Nano = time.RFC3339Nano
)
