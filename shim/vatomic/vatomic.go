// Package vatomic stands in for sync/atomic in the rewritten reftable sources.
//
// Every operation delegates to the real package. Under the engine's cooperative scheduler it is
// preceded by a scheduling point (an atomic operation is exactly where lock-free code expects other
// goroutines to get in) and followed by a note, so that the frozen-state invariant can tell the
// change made BY the atomic operation (legitimate) from unsynchronised writes around it.
//
// Written in Go 1.12 syntax (the reftable module declares go 1.12); atomic.Pointer[T] needs
// generics and therefore cannot occur in that module either.
package vatomic

import (
	"sync/atomic"
	"unsafe"

	"github.com/google/reftable/zz_verif/rt"
)

func always() bool { return true }

func pre() {
	if c := rt.Sched(); c != nil {
		c.WaitUntil("atomic-op", always)
	}
}

func post() {
	if c := rt.Sched(); c != nil {
		c.Note("atomic-done")
	}
}

func AddInt32(addr *int32, delta int32) int32 {
	pre()
	v := atomic.AddInt32(addr, delta)
	post()
	return v
}
func LoadInt32(addr *int32) int32       { pre(); v := atomic.LoadInt32(addr); post(); return v }
func StoreInt32(addr *int32, val int32) { pre(); atomic.StoreInt32(addr, val); post() }
func SwapInt32(addr *int32, new int32) int32 {
	pre()
	v := atomic.SwapInt32(addr, new)
	post()
	return v
}
func CompareAndSwapInt32(addr *int32, old, new int32) bool {
	pre()
	v := atomic.CompareAndSwapInt32(addr, old, new)
	post()
	return v
}

// Int32 mirrors atomic.Int32.
type Int32 struct{ v int32 }

func (x *Int32) Load() int32                        { return LoadInt32(&x.v) }
func (x *Int32) Store(val int32)                    { StoreInt32(&x.v, val) }
func (x *Int32) Add(delta int32) int32              { return AddInt32(&x.v, delta) }
func (x *Int32) Swap(new int32) int32               { return SwapInt32(&x.v, new) }
func (x *Int32) CompareAndSwap(old, new int32) bool { return CompareAndSwapInt32(&x.v, old, new) }

func AddInt64(addr *int64, delta int64) int64 {
	pre()
	v := atomic.AddInt64(addr, delta)
	post()
	return v
}
func LoadInt64(addr *int64) int64       { pre(); v := atomic.LoadInt64(addr); post(); return v }
func StoreInt64(addr *int64, val int64) { pre(); atomic.StoreInt64(addr, val); post() }
func SwapInt64(addr *int64, new int64) int64 {
	pre()
	v := atomic.SwapInt64(addr, new)
	post()
	return v
}
func CompareAndSwapInt64(addr *int64, old, new int64) bool {
	pre()
	v := atomic.CompareAndSwapInt64(addr, old, new)
	post()
	return v
}

// Int64 mirrors atomic.Int64.
type Int64 struct{ v int64 }

func (x *Int64) Load() int64                        { return LoadInt64(&x.v) }
func (x *Int64) Store(val int64)                    { StoreInt64(&x.v, val) }
func (x *Int64) Add(delta int64) int64              { return AddInt64(&x.v, delta) }
func (x *Int64) Swap(new int64) int64               { return SwapInt64(&x.v, new) }
func (x *Int64) CompareAndSwap(old, new int64) bool { return CompareAndSwapInt64(&x.v, old, new) }

func AddUint32(addr *uint32, delta uint32) uint32 {
	pre()
	v := atomic.AddUint32(addr, delta)
	post()
	return v
}
func LoadUint32(addr *uint32) uint32       { pre(); v := atomic.LoadUint32(addr); post(); return v }
func StoreUint32(addr *uint32, val uint32) { pre(); atomic.StoreUint32(addr, val); post() }
func SwapUint32(addr *uint32, new uint32) uint32 {
	pre()
	v := atomic.SwapUint32(addr, new)
	post()
	return v
}
func CompareAndSwapUint32(addr *uint32, old, new uint32) bool {
	pre()
	v := atomic.CompareAndSwapUint32(addr, old, new)
	post()
	return v
}

// Uint32 mirrors atomic.Uint32.
type Uint32 struct{ v uint32 }

func (x *Uint32) Load() uint32                        { return LoadUint32(&x.v) }
func (x *Uint32) Store(val uint32)                    { StoreUint32(&x.v, val) }
func (x *Uint32) Add(delta uint32) uint32             { return AddUint32(&x.v, delta) }
func (x *Uint32) Swap(new uint32) uint32              { return SwapUint32(&x.v, new) }
func (x *Uint32) CompareAndSwap(old, new uint32) bool { return CompareAndSwapUint32(&x.v, old, new) }

func AddUint64(addr *uint64, delta uint64) uint64 {
	pre()
	v := atomic.AddUint64(addr, delta)
	post()
	return v
}
func LoadUint64(addr *uint64) uint64       { pre(); v := atomic.LoadUint64(addr); post(); return v }
func StoreUint64(addr *uint64, val uint64) { pre(); atomic.StoreUint64(addr, val); post() }
func SwapUint64(addr *uint64, new uint64) uint64 {
	pre()
	v := atomic.SwapUint64(addr, new)
	post()
	return v
}
func CompareAndSwapUint64(addr *uint64, old, new uint64) bool {
	pre()
	v := atomic.CompareAndSwapUint64(addr, old, new)
	post()
	return v
}

// Uint64 mirrors atomic.Uint64.
type Uint64 struct{ v uint64 }

func (x *Uint64) Load() uint64                        { return LoadUint64(&x.v) }
func (x *Uint64) Store(val uint64)                    { StoreUint64(&x.v, val) }
func (x *Uint64) Add(delta uint64) uint64             { return AddUint64(&x.v, delta) }
func (x *Uint64) Swap(new uint64) uint64              { return SwapUint64(&x.v, new) }
func (x *Uint64) CompareAndSwap(old, new uint64) bool { return CompareAndSwapUint64(&x.v, old, new) }

func AddUintptr(addr *uintptr, delta uintptr) uintptr {
	pre()
	v := atomic.AddUintptr(addr, delta)
	post()
	return v
}
func LoadUintptr(addr *uintptr) uintptr       { pre(); v := atomic.LoadUintptr(addr); post(); return v }
func StoreUintptr(addr *uintptr, val uintptr) { pre(); atomic.StoreUintptr(addr, val); post() }
func SwapUintptr(addr *uintptr, new uintptr) uintptr {
	pre()
	v := atomic.SwapUintptr(addr, new)
	post()
	return v
}
func CompareAndSwapUintptr(addr *uintptr, old, new uintptr) bool {
	pre()
	v := atomic.CompareAndSwapUintptr(addr, old, new)
	post()
	return v
}

// Uintptr mirrors atomic.Uintptr.
type Uintptr struct{ v uintptr }

func (x *Uintptr) Load() uintptr                        { return LoadUintptr(&x.v) }
func (x *Uintptr) Store(val uintptr)                    { StoreUintptr(&x.v, val) }
func (x *Uintptr) Add(delta uintptr) uintptr            { return AddUintptr(&x.v, delta) }
func (x *Uintptr) Swap(new uintptr) uintptr             { return SwapUintptr(&x.v, new) }
func (x *Uintptr) CompareAndSwap(old, new uintptr) bool { return CompareAndSwapUintptr(&x.v, old, new) }

func LoadPointer(addr *unsafe.Pointer) unsafe.Pointer {
	pre()
	v := atomic.LoadPointer(addr)
	post()
	return v
}
func StorePointer(addr *unsafe.Pointer, val unsafe.Pointer) {
	pre()
	atomic.StorePointer(addr, val)
	post()
}
func SwapPointer(addr *unsafe.Pointer, new unsafe.Pointer) unsafe.Pointer {
	pre()
	v := atomic.SwapPointer(addr, new)
	post()
	return v
}
func CompareAndSwapPointer(addr *unsafe.Pointer, old, new unsafe.Pointer) bool {
	pre()
	v := atomic.CompareAndSwapPointer(addr, old, new)
	post()
	return v
}

// Bool mirrors atomic.Bool.
type Bool struct{ v uint32 }

func b32(b bool) uint32 {
	if b {
		return 1
	}
	return 0
}
func (x *Bool) Load() bool         { return LoadUint32(&x.v) != 0 }
func (x *Bool) Store(val bool)     { StoreUint32(&x.v, b32(val)) }
func (x *Bool) Swap(new bool) bool { return SwapUint32(&x.v, b32(new)) != 0 }
func (x *Bool) CompareAndSwap(old, new bool) bool {
	return CompareAndSwapUint32(&x.v, b32(old), b32(new))
}

// Value mirrors atomic.Value. Under the scheduler the stored value is mirrored in a plain field so
// that it is part of the hashed object graph (only one goroutine runs at a time there).
type Value struct {
	v      atomic.Value
	mirror interface{}
}

func (x *Value) Load() interface{} { pre(); v := x.v.Load(); post(); return v }
func (x *Value) Store(val interface{}) {
	pre()
	x.v.Store(val)
	if rt.Sched() != nil {
		x.mirror = val
	}
	post()
}
func (x *Value) Swap(new interface{}) interface{} {
	pre()
	v := x.v.Swap(new)
	if rt.Sched() != nil {
		x.mirror = new
	}
	post()
	return v
}
func (x *Value) CompareAndSwap(old, new interface{}) bool {
	pre()
	ok := x.v.CompareAndSwap(old, new)
	if ok && rt.Sched() != nil {
		x.mirror = new
	}
	post()
	return ok
}
