// Package vioutil stands in for io/ioutil in the rewritten reftable sources.
package vioutil

import (
	"io"
	"io/ioutil"
	"os"

	"github.com/google/reftable/zz_verif/rt"
	"github.com/google/reftable/zz_verif/vos"
)

var Discard = ioutil.Discard

func ReadAll(r io.Reader) ([]byte, error) { return ioutil.ReadAll(r) }

func ReadFile(name string) ([]byte, error) { return vos.ReadFile(name) }

func WriteFile(name string, data []byte, perm os.FileMode) error {
	return vos.WriteFile(name, data, perm)
}

func TempFile(dir, pattern string) (*vos.File, error) {
	if rt.E != nil {
		return vos.WrapImpl(rt.E.TempFile(dir, pattern))
	}
	return vos.WrapReal(ioutil.TempFile(dir, pattern))
}

func ReadDir(dir string) ([]os.FileInfo, error) {
	if rt.E != nil {
		return rt.E.ReadDir(dir)
	}
	return ioutil.ReadDir(dir)
}

func TempDir(dir, pattern string) (string, error) { return ioutil.TempDir(dir, pattern) }
