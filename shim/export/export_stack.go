package reftable

// Accessors the stack harnesses need and the public API lacks. Each is a
// one-line call into existing code. Overlaid as /repo/zz_verif_export_stack.go.

// VerifNames returns the handle's in-memory table names.
func (st *Stack) VerifNames() []string {
	var nms []string
	for _, r := range st.stack {
		nms = append(nms, r.Name())
	}
	return nms
}

func (st *Stack) VerifSetAutoCompact(on bool) { st.disableAutoCompact = !on }

func (st *Stack) VerifCompactRange(first, last int, expiry *LogExpirationConfig) (bool, error) {
	return st.compactRangeStats(first, last, expiry)
}

func (st *Stack) VerifReload() error { return st.reload(true) }

func (st *Stack) VerifSizes() []uint64 { return st.tableSizesForCompaction() }

func (st *Stack) VerifLen() int { return len(st.stack) }

// VerifSuggest returns the suggested compaction segment [start,end) or ok=false.
func VerifSuggest(sizes []uint64) (start, end int, ok bool) {
	seg := suggestCompactionSegment(sizes)
	if seg == nil {
		return 0, 0, false
	}
	return seg.start, seg.end, true
}

func VerifLog2(sz uint64) int { return log2(sz) }
