package reftable

// VerifNewMerged builds a merged view like Stack.reload does.
func VerifNewMerged(tabs []Table, hashID HashID, suppressDeletions bool) (*Merged, error) {
	m, err := NewMerged(tabs, hashID)
	if err != nil {
		return nil, err
	}
	m.suppressDeletions = suppressDeletions
	return m, nil
}
