// Package vsync stands in for sync in the rewritten reftable sources.
//
// On real goroutines (no cooperative environment installed: the free-running
// race-detector pass, sequential harnesses without a scheduler) every type
// delegates to the real sync package. Under the engine's cooperative scheduler a
// real mutex would block the one running goroutine while the goroutine holding it
// is parked, so blocking operations become visible waits (rt.Coop.WaitUntil): the
// explorer sees which processes are runnable, explores every acquisition order
// and reports a deadlock when nobody is.
//
// Written in Go 1.12 syntax (the reftable module declares go 1.12).
package vsync

import (
	"sync"

	"github.com/google/reftable/zz_verif/rt"
)

// Locker is sync.Locker.
type Locker = sync.Locker

// Map and Cond are the real types: Map never blocks; Cond is not modelled
// (a Wait under the cooperative scheduler would hang and is reported by the
// harness watchdog as a harness error, never as a verdict).
type Map = sync.Map
type Cond = sync.Cond

func NewCond(l Locker) *Cond { return sync.NewCond(l) }

// ---------------------------------------------------------------- Mutex

type Mutex struct {
	mu   sync.Mutex
	held bool
}

func (m *Mutex) Lock() {
	if c := rt.Sched(); c != nil {
		c.WaitUntil("mutex-lock", func() bool { return !m.held })
		m.held = true
		return
	}
	m.mu.Lock()
}

func (m *Mutex) Unlock() {
	if c := rt.Sched(); c != nil {
		if !m.held {
			panic("sync: unlock of unlocked mutex")
		}
		m.held = false
		c.Note("mutex-unlock")
		return
	}
	m.mu.Unlock()
}

// ---------------------------------------------------------------- RWMutex

type RWMutex struct {
	mu      sync.RWMutex
	writer  bool
	readers int
}

func (m *RWMutex) Lock() {
	if c := rt.Sched(); c != nil {
		c.WaitUntil("rwmutex-lock", func() bool { return !m.writer && m.readers == 0 })
		m.writer = true
		return
	}
	m.mu.Lock()
}

func (m *RWMutex) Unlock() {
	if c := rt.Sched(); c != nil {
		if !m.writer {
			panic("sync: Unlock of unlocked RWMutex")
		}
		m.writer = false
		c.Note("rwmutex-unlock")
		return
	}
	m.mu.Unlock()
}

func (m *RWMutex) RLock() {
	if c := rt.Sched(); c != nil {
		c.WaitUntil("rwmutex-rlock", func() bool { return !m.writer })
		m.readers++
		return
	}
	m.mu.RLock()
}

func (m *RWMutex) RUnlock() {
	if c := rt.Sched(); c != nil {
		if m.readers <= 0 {
			panic("sync: RUnlock of unlocked RWMutex")
		}
		m.readers--
		c.Note("rwmutex-runlock")
		return
	}
	m.mu.RUnlock()
}

type rlocker RWMutex

func (r *rlocker) Lock()   { (*RWMutex)(r).RLock() }
func (r *rlocker) Unlock() { (*RWMutex)(r).RUnlock() }

func (m *RWMutex) RLocker() Locker { return (*rlocker)(m) }

// ---------------------------------------------------------------- Once

type Once struct {
	once sync.Once
	m    Mutex
	done bool
}

func (o *Once) Do(f func()) {
	if c := rt.Sched(); c != nil {
		o.m.Lock()
		defer o.m.Unlock()
		if !o.done {
			defer func() { o.done = true }()
			f()
		}
		return
	}
	o.once.Do(f)
}

// ---------------------------------------------------------------- WaitGroup

type WaitGroup struct {
	wg sync.WaitGroup
	n  int
}

func (w *WaitGroup) Add(delta int) {
	if c := rt.Sched(); c != nil {
		w.n += delta
		if w.n < 0 {
			panic("sync: negative WaitGroup counter")
		}
		c.Note("wg-add")
		return
	}
	w.wg.Add(delta)
}

func (w *WaitGroup) Done() { w.Add(-1) }

func (w *WaitGroup) Wait() {
	if c := rt.Sched(); c != nil {
		c.WaitUntil("wg-wait", func() bool { return w.n == 0 })
		return
	}
	w.wg.Wait()
}

// ---------------------------------------------------------------- Pool

// Pool under the cooperative scheduler is a deterministic LIFO free list (the real
// pool's per-P caches and GC-driven eviction are nondeterminism the explorer does
// not own); getting an item back that was put by another goroutine is exactly the
// sharing a real pool permits.
type Pool struct {
	New func() interface{}

	p     sync.Pool
	items []interface{}
}

func (p *Pool) Get() interface{} {
	if c := rt.Sched(); c != nil {
		c.Note("pool-get")
		if n := len(p.items); n > 0 {
			x := p.items[n-1]
			p.items = p.items[:n-1]
			return x
		}
		if p.New != nil {
			return p.New()
		}
		return nil
	}
	if x := p.p.Get(); x != nil {
		return x
	}
	if p.New != nil {
		return p.New()
	}
	return nil
}

func (p *Pool) Put(x interface{}) {
	if x == nil {
		return
	}
	if c := rt.Sched(); c != nil {
		c.Note("pool-put")
		p.items = append(p.items, x)
		return
	}
	p.p.Put(x)
}
