#!/bin/sh
# Builds the framework from files on disk only (offline) and warms the Go build cache.
set -e
cd "$(dirname "$0")"
export GOFLAGS=-mod=mod GOPROXY=off GOSUMDB=off GOTOOLCHAIN=local
mkdir -p bin evidence replays
go build -o bin/vcheck ./cmd/vcheck
go build -o bin/bind ./cmd/bind
# warm the cache: one overlay build of each harness (scratch removed afterwards)
S=$(mktemp -d /var/tmp/vsetup-XXXXXX)
./bin/bind --scratch "$S" --exports export_stack.go,export_merged.go >/dev/null
for h in harness/*/; do
  go build -overlay "$S/overlay.json" -o "$S/h" "./$h" || true
done
rm -rf "$S"
echo setup done
