/*
 * C side of C15: a persistent process speaking a line protocol on stdin/stdout,
 * linked against the repository's C implementation (/repo/c).
 *
 * Every string travels hex-encoded ("-" is the empty/absent string).
 *
 *   W <out> <hash 1|2> <unpadded> <blocksize> <skipidx> <restart> <exact> <min> <max> <n>
 *     followed by n record lines
 *        r <name> <ui> <type 0..3> <val1|-> <val2|-> <symref|->
 *        g <name> <ui> <deletion 0|1> <old> <new> <who> <email> <time> <tz> <msg>
 *     -> "OK <bytes>" | "ERR <code>"
 *   R <path> <n>      followed by n query lines
 *        s <name>             seek ref, dump the rest
 *        l <name> <ui>        seek log at, dump the rest
 *        o <oid>              refs_for, dump all
 *     -> "OPEN <err>" then for the full scans and every query a section "Q <i> <err>" followed by
 *        record lines, then "END"
 *   A <dir> <hash> <unpadded> <blocksize> <skipidx> <restart> <exact> <autocompact 0|1> <n>  + n record lines
 *     (one transaction through reftable_stack_add at the stack's next update index; ui fields are ignored
 *      for refs and used as absolute indices for log deletions when non-zero)
 *     -> "OK" | "ERR <code>"
 *   C <dir> <hash>    compact all            -> "OK" | "ERR <code>"
 *   D <dir> <hash>    dump the merged stack  -> like R with the two full scans, then "END"
 */
#include <stdio.h>
#include <stdlib.h>
#include <string.h>
#include <stdint.h>
#include <unistd.h>
#include <fcntl.h>

#include "reftable-blocksource.h"
#include "reftable-error.h"
#include "reftable-generic.h"
#include "reftable-iterator.h"
#include "reftable-merged.h"
#include "reftable-reader.h"
#include "reftable-record.h"
#include "reftable-stack.h"
#include "reftable-writer.h"

#define SHA1_ID 0x73686131
#define SHA256_ID 0x73323536

static char line[1 << 20];

static int hexval(int c)
{
	if (c >= '0' && c <= '9')
		return c - '0';
	if (c >= 'a' && c <= 'f')
		return c - 'a' + 10;
	return -1;
}

/* decodes a hex token into a malloced, NUL-terminated buffer; "-" gives NULL */
static uint8_t *unhex(const char *tok, int *len)
{
	int n, i;
	uint8_t *out;
	if (!strcmp(tok, "-")) {
		if (len)
			*len = 0;
		return NULL;
	}
	n = strlen(tok) / 2;
	out = malloc(n + 1);
	for (i = 0; i < n; i++)
		out[i] = (hexval(tok[2 * i]) << 4) | hexval(tok[2 * i + 1]);
	out[n] = 0;
	if (len)
		*len = n;
	return out;
}

static void puthex(const uint8_t *p, int n)
{
	int i;
	if (!p || n == 0) {
		fputs("-", stdout);
		return;
	}
	for (i = 0; i < n; i++)
		printf("%02x", p[i]);
}

static void putstr(const char *s)
{
	if (!s) {
		fputs("-", stdout);
		return;
	}
	puthex((const uint8_t *)s, strlen(s));
}

static int hsize(uint32_t id)
{
	return id == SHA256_ID ? 32 : 20;
}

static void print_ref(struct reftable_ref_record *r, int hs)
{
	printf("ref ");
	putstr(r->refname);
	printf(" %llu %d ", (unsigned long long)r->update_index, (int)r->value_type);
	switch (r->value_type) {
	case REFTABLE_REF_VAL1:
		puthex(r->value.val1, hs);
		printf(" - -");
		break;
	case REFTABLE_REF_VAL2:
		puthex(r->value.val2.value, hs);
		printf(" ");
		puthex(r->value.val2.target_value, hs);
		printf(" -");
		break;
	case REFTABLE_REF_SYMREF:
		printf("- - ");
		putstr(r->value.symref);
		break;
	default:
		printf("- - -");
	}
	printf("\n");
}

static void print_log(struct reftable_log_record *l, int hs)
{
	printf("log ");
	putstr(l->refname);
	printf(" %llu ", (unsigned long long)l->update_index);
	if (l->value_type == REFTABLE_LOG_DELETION) {
		printf("1\n");
		return;
	}
	printf("0 ");
	puthex(l->value.update.old_hash, hs);
	printf(" ");
	puthex(l->value.update.new_hash, hs);
	printf(" ");
	putstr(l->value.update.name);
	printf(" ");
	putstr(l->value.update.email);
	printf(" %llu %d ", (unsigned long long)l->value.update.time, (int)l->value.update.tz_offset);
	putstr(l->value.update.message);
	printf("\n");
}

/* ------------------------------------------------------------------ records from lines */

struct recs {
	struct reftable_ref_record *refs;
	int nrefs;
	struct reftable_log_record *logs;
	int nlogs;
	int hs;
};

static char *tok(char **p)
{
	char *s = *p, *e;
	while (*s == ' ')
		s++;
	e = s;
	while (*e && *e != ' ' && *e != '\n')
		e++;
	if (*e)
		*e++ = 0;
	*p = e;
	return s;
}

static int read_records(int n, struct recs *out)
{
	int i;
	out->refs = calloc(n + 1, sizeof(*out->refs));
	out->logs = calloc(n + 1, sizeof(*out->logs));
	out->nrefs = out->nlogs = 0;
	for (i = 0; i < n; i++) {
		char *p;
		char *kind;
		if (!fgets(line, sizeof(line), stdin))
			return -1;
		p = line;
		kind = tok(&p);
		if (kind[0] == 'r') {
			struct reftable_ref_record *r = &out->refs[out->nrefs++];
			char *name = tok(&p), *ui = tok(&p), *type = tok(&p), *v1 = tok(&p), *v2 = tok(&p), *sym = tok(&p);
			r->refname = (char *)unhex(name, NULL);
			r->update_index = strtoull(ui, NULL, 10);
			r->value_type = atoi(type);
			switch (r->value_type) {
			case REFTABLE_REF_VAL1:
				r->value.val1 = unhex(v1, NULL);
				break;
			case REFTABLE_REF_VAL2:
				r->value.val2.value = unhex(v1, NULL);
				r->value.val2.target_value = unhex(v2, NULL);
				break;
			case REFTABLE_REF_SYMREF:
				r->value.symref = (char *)unhex(sym, NULL);
				break;
			default:
				break;
			}
		} else {
			struct reftable_log_record *l = &out->logs[out->nlogs++];
			char *name = tok(&p), *ui = tok(&p), *del = tok(&p), *old = tok(&p), *new = tok(&p), *who = tok(&p),
			     *email = tok(&p), *tm = tok(&p), *tz = tok(&p), *msg = tok(&p);
			l->refname = (char *)unhex(name, NULL);
			l->update_index = strtoull(ui, NULL, 10);
			if (atoi(del)) {
				l->value_type = REFTABLE_LOG_DELETION;
			} else {
				l->value_type = REFTABLE_LOG_UPDATE;
				l->value.update.old_hash = unhex(old, NULL);
				l->value.update.new_hash = unhex(new, NULL);
				if (!l->value.update.old_hash)
					l->value.update.old_hash = calloc(1, out->hs);
				if (!l->value.update.new_hash)
					l->value.update.new_hash = calloc(1, out->hs);
				l->value.update.name = (char *)unhex(who, NULL);
				l->value.update.email = (char *)unhex(email, NULL);
				l->value.update.time = strtoull(tm, NULL, 10);
				l->value.update.tz_offset = atoi(tz);
				l->value.update.message = (char *)unhex(msg, NULL);
				/* the C encoder wants strings, not NULL */
				if (!l->value.update.name)
					l->value.update.name = calloc(1, 1);
				if (!l->value.update.email)
					l->value.update.email = calloc(1, 1);
				if (!l->value.update.message)
					l->value.update.message = calloc(1, 1);
			}
		}
	}
	return 0;
}

static void parse_opts(char **p, struct reftable_write_options *o)
{
	memset(o, 0, sizeof(*o));
	o->hash_id = atoi(tok(p)) == 2 ? SHA256_ID : SHA1_ID;
	o->unpadded = atoi(tok(p));
	o->block_size = strtoul(tok(p), NULL, 10);
	o->skip_index_objects = atoi(tok(p));
	o->restart_interval = atoi(tok(p));
	o->exact_log_message = atoi(tok(p));
}

static ssize_t fd_write(void *arg, const void *data, size_t sz)
{
	int *fdp = arg;
	return write(*fdp, data, sz);
}

static int write_all(struct reftable_writer *w, struct recs *rs)
{
	int i, err;
	for (i = 0; i < rs->nrefs; i++) {
		err = reftable_writer_add_ref(w, &rs->refs[i]);
		if (err < 0)
			return err;
	}
	for (i = 0; i < rs->nlogs; i++) {
		err = reftable_writer_add_log(w, &rs->logs[i]);
		if (err < 0)
			return err;
	}
	return 0;
}

static void cmd_write(char *p)
{
	char *out = strdup(tok(&p));
	struct reftable_write_options o;
	struct recs rs;
	uint64_t min, max;
	int n, fd, err;
	struct reftable_writer *w;
	parse_opts(&p, &o);
	min = strtoull(tok(&p), NULL, 10);
	max = strtoull(tok(&p), NULL, 10);
	n = atoi(tok(&p));
	rs.hs = hsize(o.hash_id);
	if (read_records(n, &rs) < 0) {
		printf("ERR read\n");
		return;
	}
	fd = open(out, O_CREAT | O_TRUNC | O_WRONLY, 0644);
	w = reftable_new_writer(&fd_write, &fd, &o);
	reftable_writer_set_limits(w, min, max);
	err = write_all(w, &rs);
	if (err >= 0)
		err = reftable_writer_close(w);
	reftable_writer_free(w);
	close(fd);
	if (err < 0)
		printf("ERR %d\n", err);
	else
		printf("OK\n");
	free(out);
}

static void dump_refs(struct reftable_iterator *it, int hs)
{
	struct reftable_ref_record ref = { 0 };
	int err;
	while ((err = reftable_iterator_next_ref(it, &ref)) == 0)
		print_ref(&ref, hs);
	if (err < 0)
		printf("ITERERR %d\n", err);
	reftable_ref_record_release(&ref);
	reftable_iterator_destroy(it);
}

static void dump_logs(struct reftable_iterator *it, int hs)
{
	struct reftable_log_record log = { 0 };
	int err;
	while ((err = reftable_iterator_next_log(it, &log)) == 0)
		print_log(&log, hs);
	if (err < 0)
		printf("ITERERR %d\n", err);
	reftable_log_record_release(&log);
	reftable_iterator_destroy(it);
}

static void cmd_read(char *p)
{
	char *path = strdup(tok(&p));
	int n = atoi(tok(&p));
	struct reftable_block_source src = { 0 };
	struct reftable_reader *r = NULL;
	int err, i, hs;
	err = reftable_block_source_from_file(&src, path);
	if (err == 0)
		err = reftable_new_reader(&r, &src, path);
	printf("OPEN %d\n", err);
	if (err < 0) {
		for (i = 0; i < n; i++)
			if (!fgets(line, sizeof(line), stdin))
				break;
		printf("END\n");
		free(path);
		return;
	}
	hs = hsize(reftable_reader_hash_id(r));
	{
		struct reftable_iterator it = { 0 };
		err = reftable_reader_seek_ref(r, &it, "");
		printf("Q refs %d\n", err < 0 ? err : 0);
		if (err == 0)
			dump_refs(&it, hs);
	}
	{
		struct reftable_iterator it = { 0 };
		err = reftable_reader_seek_log(r, &it, "");
		printf("Q logs %d\n", err < 0 ? err : 0);
		if (err == 0)
			dump_logs(&it, hs);
	}
	for (i = 0; i < n; i++) {
		char *q, *kind;
		struct reftable_iterator it = { 0 };
		if (!fgets(line, sizeof(line), stdin))
			break;
		q = line;
		kind = tok(&q);
		if (kind[0] == 's') {
			char *name = (char *)unhex(tok(&q), NULL);
			err = reftable_reader_seek_ref(r, &it, name ? name : "");
			printf("Q %d %d\n", i, err < 0 ? err : 0);
			if (err == 0)
				dump_refs(&it, hs);
			free(name);
		} else if (kind[0] == 'l') {
			char *name = (char *)unhex(tok(&q), NULL);
			uint64_t ui = strtoull(tok(&q), NULL, 10);
			err = reftable_reader_seek_log_at(r, &it, name ? name : "", ui);
			printf("Q %d %d\n", i, err < 0 ? err : 0);
			if (err == 0)
				dump_logs(&it, hs);
			free(name);
		} else {
			uint8_t *oid = unhex(tok(&q), NULL);
			err = reftable_reader_refs_for(r, &it, oid);
			printf("Q %d %d\n", i, err < 0 ? err : 0);
			if (err == 0)
				dump_refs(&it, hs);
			free(oid);
		}
	}
	printf("END\n");
	reftable_reader_free(r);
	free(path);
}

struct txn {
	struct recs *rs;
	struct reftable_stack *st;
};

static int write_txn(struct reftable_writer *w, void *arg)
{
	struct txn *t = arg;
	uint64_t ui = reftable_stack_next_update_index(t->st);
	int i;
	reftable_writer_set_limits(w, ui, ui);
	for (i = 0; i < t->rs->nrefs; i++)
		t->rs->refs[i].update_index = ui;
	for (i = 0; i < t->rs->nlogs; i++)
		if (t->rs->logs[i].update_index == 0)
			t->rs->logs[i].update_index = ui;
	return write_all(w, t->rs);
}

static void cmd_add(char *p)
{
	char *dir = strdup(tok(&p));
	struct reftable_write_options o;
	struct recs rs;
	struct reftable_stack *st = NULL;
	struct txn t;
	int autoc, n, err;
	parse_opts(&p, &o);
	autoc = atoi(tok(&p));
	n = atoi(tok(&p));
	rs.hs = hsize(o.hash_id);
	if (read_records(n, &rs) < 0) {
		printf("ERR read\n");
		return;
	}
	err = reftable_new_stack(&st, dir, o);
	if (err < 0) {
		printf("ERR open %d\n", err);
		free(dir);
		return;
	}
	t.rs = &rs;
	t.st = st;
	if (autoc) {
		err = reftable_stack_add(st, &write_txn, &t);
	} else {
		struct reftable_addition *add = NULL;
		err = reftable_stack_new_addition(&add, st);
		if (err == 0)
			err = reftable_addition_add(add, &write_txn, &t);
		if (err == 0)
			err = reftable_addition_commit(add);
		if (add)
			reftable_addition_destroy(add);
	}
	reftable_stack_destroy(st);
	if (err < 0)
		printf("ERR %d\n", err);
	else
		printf("OK\n");
	free(dir);
}

static void cmd_compact(char *p)
{
	char *dir = strdup(tok(&p));
	struct reftable_write_options o = { 0 };
	struct reftable_stack *st = NULL;
	int err;
	o.hash_id = atoi(tok(&p)) == 2 ? SHA256_ID : SHA1_ID;
	err = reftable_new_stack(&st, dir, o);
	if (err == 0)
		err = reftable_stack_compact_all(st, NULL);
	if (st)
		reftable_stack_destroy(st);
	if (err < 0)
		printf("ERR %d\n", err);
	else
		printf("OK\n");
	free(dir);
}

static void cmd_dump(char *p)
{
	char *dir = strdup(tok(&p));
	struct reftable_write_options o = { 0 };
	struct reftable_stack *st = NULL;
	struct reftable_merged_table *mt;
	int err, hs;
	o.hash_id = atoi(tok(&p)) == 2 ? SHA256_ID : SHA1_ID;
	hs = hsize(o.hash_id);
	err = reftable_new_stack(&st, dir, o);
	printf("OPEN %d\n", err);
	if (err < 0) {
		printf("END\n");
		free(dir);
		return;
	}
	mt = reftable_stack_merged_table(st);
	{
		struct reftable_iterator it = { 0 };
		err = reftable_merged_table_seek_ref(mt, &it, "");
		printf("Q refs %d\n", err < 0 ? err : 0);
		if (err == 0)
			dump_refs(&it, hs);
	}
	{
		struct reftable_iterator it = { 0 };
		err = reftable_merged_table_seek_log(mt, &it, "");
		printf("Q logs %d\n", err < 0 ? err : 0);
		if (err == 0)
			dump_logs(&it, hs);
	}
	printf("END\n");
	reftable_stack_destroy(st);
	free(dir);
}

int main(void)
{
	setvbuf(stdout, NULL, _IOFBF, 1 << 16);
	while (fgets(line, sizeof(line), stdin)) {
		char *p = line;
		char *c = tok(&p);
		/* the command line is consumed before the record lines overwrite the buffer */
		char *rest = strdup(p);
		switch (c[0]) {
		case 'W':
			cmd_write(rest);
			break;
		case 'R':
			cmd_read(rest);
			break;
		case 'A':
			cmd_add(rest);
			break;
		case 'C':
			cmd_compact(rest);
			break;
		case 'D':
			cmd_dump(rest);
			break;
		case 'Q':
			free(rest);
			return 0;
		default:
			printf("ERR unknown command\n");
		}
		free(rest);
		fflush(stdout);
	}
	return 0;
}
