// Package stk holds what the stack harnesses share: the tiny transaction
// alphabet, the initial stacks (built with the real code in atomic mode) and
// their reference models.
package stk

import (
	"fmt"
	"strings"

	"github.com/google/reftable"
	"github.com/google/reftable/zz_verif/rt"

	"verif/engine/mc"
	"verif/internal/hx"
	"verif/model/fmtspec"
	"verif/model/refdb"
)

const Dir = "/d"

// Txn builds the small transaction with the given id. Every transaction touches
// the shared ref refs/x, a ref of its own and one reflog entry, so that every lost or
// duplicated commit changes the view.
func Txn(id string) hx.Txn {
	switch {
	case id == "empty":
		return hx.Txn{ID: id}
	case strings.HasPrefix(id, "name:"):
		// name:<refname> : a single ref create (for C12 under contention)
		n := strings.TrimPrefix(id, "name:")
		return hx.Txn{ID: id, Refs: []hx.RefOp{{Name: n, Kind: 1, Val: id}}}
	case strings.HasPrefix(id, "del:"):
		n := strings.TrimPrefix(id, "del:")
		return hx.Txn{ID: id, Refs: []hx.RefOp{{Name: n, Kind: 0}}}
	case strings.HasPrefix(id, "log"):
		return hx.Txn{ID: id, Refs: []hx.RefOp{{Name: "refs/x", Kind: 1, Val: id}},
			Logs: []hx.LogOp{{Name: "refs/x", Msg: id, Time: 500, Old: "o" + id, New: "n" + id}}}
	}
	return hx.Txn{ID: id,
		Refs: []hx.RefOp{{Name: "refs/t/" + id, Kind: 2, Val: id, Peeled: "p" + id}, {Name: "refs/x", Kind: 1, Val: id}},
		Logs: []hx.LogOp{{Name: "refs/x", Msg: "m " + id, Time: 1000, Old: "o" + id, New: "n" + id}},
	}
}

func HashSize(cfg reftable.Config) int {
	if cfg.HashID == reftable.SHA256ID {
		return 32
	}
	return 20
}

func HashName(cfg reftable.Config) string {
	if cfg.HashID == reftable.SHA256ID {
		return "s256"
	}
	return "sha1"
}

// InitialDir builds the initial directory with the real code in atomic mode.
var initCache = map[string]map[string][]byte{}

func InitialDir(kind string, cfg reftable.Config) (map[string][]byte, error) {
	key := fmt.Sprintf("%s/%s/%v", kind, HashName(cfg), cfg.SkipNameCheck)
	if m, ok := initCache[key]; ok {
		return m, nil
	}
	w := mc.NewWorld(Dir)
	rt.E = w
	defer func() { rt.E = nil }()
	err := w.RunAtomic(func() error {
		w.Proc(0).ID = 0
		st, err := reftable.NewStack(Dir, cfg)
		if err != nil {
			return err
		}
		st.VerifSetAutoCompact(false)
		var ids []string
		switch kind {
		case "empty":
		case "one", "orphan-empty":
			ids = []string{"i1"}
		case "two":
			ids = []string{"i1", "i2"}
		case "three":
			// the middle table holds a tombstone for a ref created in the first
			ids = []string{"i1", "del:refs/t/i1", "i3"}
		case "cancel":
			// the two oldest tables cancel out entirely (create then delete): compacting them yields no table
			ids = []string{"name:refs/c", "del:refs/c", "i3"}
		case "cancel2":
			// the whole stack cancels out: compacting it leaves no table at all
			ids = []string{"name:refs/c", "del:refs/c"}
		case "high2":
			ids = []string{"i1", "i2"}
		case "four":
			ids = []string{"i1", "i2", "i3", "i4"}
		default:
			return fmt.Errorf("unknown initial stack %q", kind)
		}
		for i, id := range ids {
			t := Txn(id)
			first := i == 0 && strings.HasPrefix(kind, "high")
			if err := st.Add(func(wr *reftable.Writer) error {
				ui := st.NextUpdateIndex()
				if first {
					ui = 1 << 32 // a stack whose update indices start above 2^32
				}
				return t.Write(wr, ui, HashSize(cfg))
			}); err != nil {
				return fmt.Errorf("initial Add(%s): %v", id, err)
			}
		}
		st.Close()
		return nil
	})
	if err != nil {
		return nil, err
	}
	m := w.Snapshot()
	if kind == "orphan-empty" {
		// what a process killed between the table rename and the list rename of the very first Add leaves:
		// a complete table under its final name and no tables.list
		delete(m, "tables.list")
	}
	initCache[key] = m
	return m, nil
}

func ModelOf(snap map[string][]byte) (*refdb.DB, error) {
	var tabs []*fmtspec.Table
	for _, n := range strings.Split(string(snap["tables.list"]), "\n") {
		if n == "" {
			continue
		}
		t, err := fmtspec.Decode(snap[n])
		if err != nil {
			return nil, fmt.Errorf("initial table %s: %v", n, err)
		}
		tabs = append(tabs, t)
	}
	return refdb.Overlay(tabs).DropTombstones(), nil
}
