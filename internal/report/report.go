// Package report writes evidence files, matches violations against the committed
// known-findings file and prints the VIOLATION / KNOWN-FINDING lines.
package report

import (
	"encoding/json"
	"fmt"
	"os"
	"path/filepath"
	"sort"
	"strings"
	"time"
)

type Finding struct {
	Status    string `json:"status"` // "known" or "fixed"
	Property  string `json:"property"`
	Signature string `json:"signature"`
	What      string `json:"what"`
	Commit    string `json:"commit,omitempty"`
	Replay    string `json:"replay,omitempty"`
}

type Known struct {
	Findings []Finding `json:"findings"`
}

func LoadKnown(path string) (*Known, error) {
	k := &Known{}
	b, err := os.ReadFile(path)
	if err != nil {
		if os.IsNotExist(err) {
			return k, nil
		}
		return nil, err
	}
	if err := json.Unmarshal(b, k); err != nil {
		return nil, fmt.Errorf("%s: %v", path, err)
	}
	return k, nil
}

// Match returns the listed *known* finding for (prop, sig). Fixed entries suppress nothing.
func (k *Known) Match(prop, sig string) (Finding, bool) {
	for _, f := range k.Findings {
		if f.Status == "known" && f.Property == prop && f.Signature == sig {
			return f, true
		}
	}
	return Finding{}, false
}

// V is one violation found by a check.
type V struct {
	Property  string      `json:"property"`
	Signature string      `json:"signature"`
	Msg       string      `json:"message"`
	Count     int         `json:"count"`
	Replay    interface{} `json:"replay"` // whatever is needed to reproduce it
}

type Run struct {
	Property    string
	Tier        string
	Seed        int64
	Level       string
	Start       time.Time
	Coverage    map[string]interface{}
	Assumptions []string
	Violations  []V
	VerifDir    string
}

func NewRun(prop, tier, level string) *Run {
	seed := int64(0)
	fmt.Sscan(os.Getenv("VERIF_SEED"), &seed)
	vd := os.Getenv("VERIF_DIR")
	if vd == "" {
		vd = "/verif"
	}
	return &Run{Property: prop, Tier: tier, Seed: seed, Level: level, Start: time.Now(), Coverage: map[string]interface{}{}, VerifDir: vd}
}

func sanitize(s string) string {
	r := strings.NewReplacer("/", "_", ":", "_", "@", "_", "(", "_", ")", "_", " ", "_", "*", "_", "<", "_", ">", "_", "\"", "_", "=", "_")
	s = r.Replace(s)
	if len(s) > 90 {
		s = s[:90]
	}
	return s
}

// Finish writes replay files and the evidence file, prints the verdict lines and
// returns the exit code (0 held / only known findings, 1 new violation).
func (r *Run) Finish() int {
	known, err := LoadKnown(filepath.Join(r.VerifDir, "known_findings.json"))
	if err != nil {
		fmt.Println("HARNESS-ERROR", err)
		return 2
	}
	sort.SliceStable(r.Violations, func(i, j int) bool { return r.Violations[i].Signature < r.Violations[j].Signature })
	exit := 0
	newV, knownV := 0, 0
	var knownSigs []string
	seen := map[string]bool{}
	for _, v := range r.Violations {
		if seen[v.Signature] {
			continue
		}
		seen[v.Signature] = true
		if f, ok := known.Match(v.Property, v.Signature); ok {
			fmt.Printf("KNOWN-FINDING: property=%s %s [%s]\n", v.Property, f.What, v.Signature)
			knownV++
			knownSigs = append(knownSigs, v.Signature)
			continue
		}
		dir := filepath.Join(r.VerifDir, "replays", r.Property)
		os.MkdirAll(dir, 0o755)
		path := filepath.Join(dir, sanitize(v.Signature)+".json")
		js, _ := json.MarshalIndent(v, "", " ")
		os.WriteFile(path, js, 0o644)
		first := v.Msg
		if i := strings.Index(first, "\n"); i >= 0 {
			first = first[:i]
		}
		fmt.Printf("VIOLATION property=%s replay=%s\n  signature: %s\n  %s\n", v.Property, path, v.Signature, first)
		newV++
		exit = 1
	}
	r.Coverage["known_findings_encountered"] = knownSigs
	ev := map[string]interface{}{
		"property_id": r.Property,
		"tier":        r.Tier,
		"seed":        r.Seed,
		"level":       r.Level,
		"coverage":    r.Coverage,
		"assumptions": r.Assumptions,
		"wall_s":      time.Since(r.Start).Seconds(),
		"violations":  newV,
	}
	js, _ := json.MarshalIndent(ev, "", " ")
	os.MkdirAll(filepath.Join(r.VerifDir, "evidence"), 0o755)
	if err := os.WriteFile(filepath.Join(r.VerifDir, "evidence", r.Property+".json"), js, 0o644); err != nil {
		fmt.Println("HARNESS-ERROR", err)
		return 2
	}
	fmt.Printf("RESULT property=%s tier=%s new_violations=%d known_findings=%d wall=%.1fs\n", r.Property, r.Tier, newV, knownV, time.Since(r.Start).Seconds())
	return exit
}
