// Package bind produces, from /repo's current working tree, a `go build -overlay`
// description in which the reftable package talks to the verification engine
// instead of os / io/ioutil / time / math/rand / sync. See DESIGN.md section 3.
package bind

import (
	"bytes"
	"encoding/json"
	"fmt"
	"go/ast"
	"go/build"
	"go/format"
	"go/importer"
	"go/parser"
	"go/token"
	"go/types"
	"os"
	"path/filepath"
	"sort"
	"strconv"
	"strings"
)

const shimBase = "github.com/google/reftable/zz_verif/"

var redirect = map[string]string{
	"os":        shimBase + "vos",
	"io/ioutil": shimBase + "vioutil",
	"time":      shimBase + "vtime",
	"math/rand": shimBase + "vrand",
	// blocking synchronisation becomes a visible wait under the cooperative scheduler and stays the
	// real thing on free-running goroutines (shim/vsync)
	"sync": shimBase + "vsync",
	// atomic operations are scheduling points under the cooperative scheduler (shim/vatomic)
	"sync/atomic": shimBase + "vatomic",
}

var forbidden = map[string]bool{
	"syscall": true, "os/exec": true, "net": true, "unsafe": true, "os/signal": true,
	"net/http": true, "runtime/debug": true, "plugin": true,
}

// Report records what the binder did; it is copied into every evidence file.
type Report struct {
	Files            []string       `json:"files"`
	RedirectedCalls  map[string]int `json:"redirected_calls"`
	RewrittenImports int            `json:"rewritten_imports"`
	MapRanges        []string       `json:"map_ranges_rewritten"`
	Globals          []string       `json:"package_level_vars"`
	Goroutines       []string       `json:"go_statements"`
	// SyncImports lists files of the package importing sync or sync/atomic (C19's frozen-state
	// invariant is only meaningful for code without synchronisation primitives)
	SyncImports []string `json:"sync_imports"`
}

// Options selects what is overlaid.
type Options struct {
	Repo       string            // /repo
	Verif      string            // /verif
	Scratch    string            // fresh directory outside both
	Exports    []string          // names of files in shim/export to overlay (e.g. "export_stack.go")
	Extra      map[string]string // additional overlay entries (target -> source), e.g. deliberate changes
	NoRedirect bool              // keep real os/time (used by harnesses that need real files)
}

// Bind writes <scratch>/overlay.json and returns its path.
func Bind(o Options) (string, *Report, error) {
	rep := &Report{RedirectedCalls: map[string]int{}}
	gen := filepath.Join(o.Scratch, "gen")
	if err := os.MkdirAll(gen, 0o755); err != nil {
		return "", nil, err
	}
	ents, err := os.ReadDir(o.Repo)
	if err != nil {
		return "", nil, err
	}
	fset := token.NewFileSet()
	var files []*ast.File
	var names []string
	ctx := build.Default
	for _, e := range ents {
		n := e.Name()
		if e.IsDir() || !strings.HasSuffix(n, ".go") || strings.HasSuffix(n, "_test.go") || strings.HasPrefix(n, "zz_verif") {
			continue
		}
		src := filepath.Join(o.Repo, n)
		if alt, ok := o.Extra[src]; ok {
			src = alt
		}
		if ok, _ := ctx.MatchFile(o.Repo, n); !ok && o.Extra[filepath.Join(o.Repo, n)] == "" {
			continue // excluded by build constraints (e.g. a guarded hook file)
		}
		b, err := os.ReadFile(src)
		if err != nil {
			return "", nil, err
		}
		f, err := parser.ParseFile(fset, filepath.Join(o.Repo, n), b, parser.ParseComments)
		if err != nil {
			return "", nil, fmt.Errorf("parse %s: %v", n, err)
		}
		if f.Name.Name != "reftable" {
			continue
		}
		files = append(files, f)
		names = append(names, n)
	}
	rep.Files = names

	info := &types.Info{
		Types: map[ast.Expr]types.TypeAndValue{},
		Uses:  map[*ast.Ident]types.Object{},
		Defs:  map[*ast.Ident]types.Object{},
	}
	conf := types.Config{Importer: importer.ForCompiler(fset, "source", nil), Error: func(error) {}}
	pkg, err := conf.Check("github.com/google/reftable", fset, files, info)
	if err != nil {
		return "", nil, fmt.Errorf("type-check of %s failed: %v", o.Repo, err)
	}

	overlay := map[string]string{}
	for i, f := range files {
		for _, im := range f.Imports {
			if p, _ := strconv.Unquote(im.Path.Value); p == "sync" || p == "sync/atomic" {
				rep.SyncImports = append(rep.SyncImports, names[i]+":"+p)
			}
		}
		usesRT := false
		if !o.NoRedirect {
			// count redirected selector uses
			ast.Inspect(f, func(n ast.Node) bool {
				if se, ok := n.(*ast.SelectorExpr); ok {
					if id, ok := se.X.(*ast.Ident); ok {
						if pn, ok := info.Uses[id].(*types.PkgName); ok {
							if _, red := redirect[pn.Imported().Path()]; red {
								rep.RedirectedCalls[pn.Imported().Path()+"."+se.Sel.Name]++
							}
						}
					}
				}
				if g, ok := n.(*ast.GoStmt); ok {
					rep.Goroutines = append(rep.Goroutines, fset.Position(g.Pos()).String())
				}
				return true
			})
			for _, im := range f.Imports {
				p, _ := strconv.Unquote(im.Path.Value)
				if forbidden[p] {
					return "", nil, fmt.Errorf("%s imports %q, which escapes the shims", names[i], p)
				}
				if np, ok := redirect[p]; ok {
					local := filepath.Base(p)
					if im.Name != nil {
						local = im.Name.Name
					}
					im.Name = ast.NewIdent(local)
					im.Path.Value = strconv.Quote(np)
					rep.RewrittenImports++
				}
			}
			// map ranges
			var rerr error
			ast.Inspect(f, func(n ast.Node) bool {
				blk, ok := n.(*ast.BlockStmt)
				if !ok {
					if cc, ok := n.(*ast.CaseClause); ok {
						rewriteList(cc.Body, info, fset, rep, &usesRT, &rerr)
					}
					if cc, ok := n.(*ast.CommClause); ok {
						rewriteList(cc.Body, info, fset, rep, &usesRT, &rerr)
					}
					return true
				}
				rewriteList(blk.List, info, fset, rep, &usesRT, &rerr)
				return true
			})
			if rerr != nil {
				return "", nil, rerr
			}
			if usesRT {
				addImport(f, "rt", shimBase+"rt")
			}
		}
		// Comments are dropped: the printer places free-floating comments by position,
		// which is meaningless after statements were rebuilt.
		f.Comments = nil
		f.Doc = nil
		var buf bytes.Buffer
		if err := format.Node(&buf, fset, f); err != nil {
			return "", nil, fmt.Errorf("print %s: %v", names[i], err)
		}
		out := filepath.Join(gen, names[i])
		if err := os.WriteFile(out, buf.Bytes(), 0o644); err != nil {
			return "", nil, err
		}
		overlay[filepath.Join(o.Repo, names[i])] = out
	}

	// globals accessor
	var globals []string
	sc := pkg.Scope()
	for _, n := range sc.Names() {
		if v, ok := sc.Lookup(n).(*types.Var); ok && !v.IsField() {
			globals = append(globals, n)
		}
	}
	sort.Strings(globals)
	rep.Globals = globals
	var gb bytes.Buffer
	gb.WriteString("package reftable\n\n// Generated by verif/bind: addresses of all package-level variables.\nfunc VerifGlobals() map[string]interface{} {\n\treturn map[string]interface{}{\n")
	for _, g := range globals {
		fmt.Fprintf(&gb, "\t\t%q: &%s,\n", g, g)
	}
	gb.WriteString("\t}\n}\n")
	gp := filepath.Join(gen, "zz_verif_globals.go")
	if err := os.WriteFile(gp, gb.Bytes(), 0o644); err != nil {
		return "", nil, err
	}
	overlay[filepath.Join(o.Repo, "zz_verif_globals.go")] = gp

	for _, e := range o.Exports {
		overlay[filepath.Join(o.Repo, "zz_verif_"+e)] = filepath.Join(o.Verif, "shim", "export", e)
	}
	for _, s := range []string{"rt", "vos", "vioutil", "vtime", "vrand", "vsync", "vatomic"} {
		overlay[filepath.Join(o.Repo, "zz_verif", s, s+".go")] = filepath.Join(o.Verif, "shim", s, s+".go")
	}
	for k, v := range o.Extra {
		if _, done := overlay[k]; !done {
			overlay[k] = v
		}
	}
	js, _ := json.MarshalIndent(map[string]interface{}{"Replace": overlay}, "", " ")
	op := filepath.Join(o.Scratch, "overlay.json")
	if err := os.WriteFile(op, js, 0o644); err != nil {
		return "", nil, err
	}
	return op, rep, nil
}

func rewriteList(list []ast.Stmt, info *types.Info, fset *token.FileSet, rep *Report, usesRT *bool, rerr *error) {
	for i, s := range list {
		var lbl *ast.LabeledStmt
		if l, ok := s.(*ast.LabeledStmt); ok {
			lbl = l
			s = l.Stmt
		}
		rs, ok := s.(*ast.RangeStmt)
		if !ok {
			continue
		}
		tv, ok := info.Types[rs.X]
		if !ok {
			continue
		}
		mt, ok := tv.Type.Underlying().(*types.Map)
		if !ok {
			continue
		}
		if b, ok := mt.Key().Underlying().(*types.Basic); !ok || b.Kind() != types.String {
			*rerr = fmt.Errorf("%s: range over map with non-string key type %s: not supported by the binder", fset.Position(rs.Pos()), mt.Key())
			return
		}
		if rs.Tok != token.DEFINE && (rs.Key != nil || rs.Value != nil) {
			*rerr = fmt.Errorf("%s: range over map with '=' assignment: not supported by the binder", fset.Position(rs.Pos()))
			return
		}
		*usesRT = true
		rep.MapRanges = append(rep.MapRanges, fset.Position(rs.Pos()).String())
		mv := ast.NewIdent("zzVerifMap")
		keyIdent := ast.NewIdent("zzVerifKey")
		if id, ok := rs.Key.(*ast.Ident); ok && id.Name != "_" {
			keyIdent = ast.NewIdent(id.Name)
		}
		var pre []ast.Stmt
		if id, ok := rs.Value.(*ast.Ident); ok && id.Name != "_" {
			pre = append(pre, &ast.AssignStmt{
				Lhs: []ast.Expr{ast.NewIdent(id.Name)}, Tok: token.DEFINE,
				Rhs: []ast.Expr{&ast.IndexExpr{X: mv, Index: keyIdent}},
			})
		}
		// a conversion keeps named string key types working
		var keyExpr ast.Expr = keyIdent
		inner := ast.NewIdent("zzVerifK")
		if _, named := mt.Key().(*types.Named); named {
			*rerr = fmt.Errorf("%s: range over map with named string key type: not supported by the binder", fset.Position(rs.Pos()))
			return
		}
		_ = keyExpr
		_ = inner
		body := &ast.BlockStmt{List: append(pre, rs.Body.List...)}
		// if the key is unused in the original (blank), reference it to keep the compiler happy
		if keyIdent.Name == "zzVerifKey" {
			body.List = append([]ast.Stmt{&ast.AssignStmt{Lhs: []ast.Expr{ast.NewIdent("_")}, Tok: token.ASSIGN, Rhs: []ast.Expr{keyIdent}}}, body.List...)
		}
		loop := &ast.RangeStmt{
			Key: ast.NewIdent("_"), Value: keyIdent, Tok: token.DEFINE,
			X: &ast.CallExpr{
				Fun:  &ast.SelectorExpr{X: ast.NewIdent("rt"), Sel: ast.NewIdent("MapKeys")},
				Args: []ast.Expr{mv},
			},
			Body: body,
		}
		var loopStmt ast.Stmt = loop
		if lbl != nil {
			lbl.Stmt = loop
			loopStmt = lbl
		}
		list[i] = &ast.BlockStmt{List: []ast.Stmt{
			&ast.AssignStmt{Lhs: []ast.Expr{mv}, Tok: token.DEFINE, Rhs: []ast.Expr{rs.X}},
			loopStmt,
		}}
	}
}

func addImport(f *ast.File, name, path string) {
	spec := &ast.ImportSpec{Name: ast.NewIdent(name), Path: &ast.BasicLit{Kind: token.STRING, Value: strconv.Quote(path)}}
	for _, d := range f.Decls {
		if gd, ok := d.(*ast.GenDecl); ok && gd.Tok == token.IMPORT {
			gd.Specs = append(gd.Specs, spec)
			if !gd.Lparen.IsValid() {
				gd.Lparen = gd.Pos()
				gd.Rparen = gd.End()
			}
			f.Imports = append(f.Imports, spec)
			return
		}
	}
	gd := &ast.GenDecl{Tok: token.IMPORT, Specs: []ast.Spec{spec}}
	f.Decls = append([]ast.Decl{gd}, f.Decls...)
	f.Imports = append(f.Imports, spec)
}
