// Package hx holds helpers shared by the harnesses: canonical dumps of what the
// real reftable code returns, transaction specifications and their writers.
package hx

import (
	"crypto/sha256"
	"fmt"
	"math"
	"sort"
	"strings"

	"github.com/google/reftable"

	"verif/model/fmtspec"
	"verif/model/refdb"
)

// Hash returns a deterministic object id of the given size for a label.
func Hash(label string, size int) []byte {
	s := sha256.Sum256([]byte(label))
	out := make([]byte, size)
	copy(out, s[:])
	if size > 32 {
		copy(out[32:], s[:])
	}
	return out
}

func RefCanon(r *reftable.RefRecord) string {
	return refdb.RefString(r.RefName, r.UpdateIndex, r.Value, r.TargetValue, r.Target)
}

func LogCanon(l *reftable.LogRecord, hashSize int) string {
	return refdb.LogString(l.RefName, l.UpdateIndex, l.IsDeletion(), l.Old, l.New, l.Name, l.Email, l.Time, l.TZOffset, l.Message, hashSize)
}

// ScanRefs iterates refs from a seek key to exhaustion, the way callers do: with ONE record that is
// reused for every NextRef call. Each record is canonicalised when it is handed out, and a copy of the
// struct (sharing its slices) is kept; at the end every kept copy must still canonicalise to the same
// string - a record the caller was given must not be overwritten by later calls on the iterator.
func ScanRefs(tab reftable.Table, from string) ([]string, error) {
	it, err := tab.SeekRef(from)
	if err != nil {
		return nil, err
	}
	var out []string
	var kept []reftable.RefRecord
	var r reftable.RefRecord
	for {
		ok, err := it.NextRef(&r)
		if err != nil {
			return out, err
		}
		if !ok {
			// the end is final: a reader that asks again must not be handed a record
			if again, _ := it.NextRef(&r); again {
				return out, fmt.Errorf("iterator yields a record (%s) after reporting the end of the iteration", RefCanon(&r))
			}
			break
		}
		out = append(out, RefCanon(&r))
		if len(kept) < 4096 {
			kept = append(kept, r)
		}
		if len(out) > 1<<20 {
			return out, fmt.Errorf("scan does not terminate")
		}
	}
	for i := range kept {
		if c := RefCanon(&kept[i]); c != out[i] {
			return out, fmt.Errorf("iterator writes into buffers of a ref record it handed out earlier: record %d was %s when NextRef returned it and reads %s after later NextRef calls", i, out[i], c)
		}
	}
	return out, nil
}

// ScanLogs iterates logs from a seek key to exhaustion (one reused record, see ScanRefs).
func ScanLogs(tab reftable.Table, name string, ui uint64, hashSize int) ([]string, error) {
	it, err := tab.SeekLog(name, ui)
	if err != nil {
		return nil, err
	}
	var out []string
	var kept []reftable.LogRecord
	var l reftable.LogRecord
	for {
		ok, err := it.NextLog(&l)
		if err != nil {
			return out, err
		}
		if !ok {
			if again, _ := it.NextLog(&l); again {
				return out, fmt.Errorf("iterator yields a record (%s) after reporting the end of the iteration", LogCanon(&l, hashSize))
			}
			break
		}
		out = append(out, LogCanon(&l, hashSize))
		if len(kept) < 4096 {
			kept = append(kept, l)
		}
		if len(out) > 1<<20 {
			return out, fmt.Errorf("scan does not terminate")
		}
	}
	for i := range kept {
		if c := LogCanon(&kept[i], hashSize); c != out[i] {
			return out, fmt.Errorf("iterator writes into buffers of a log record it handed out earlier: record %d was %s when NextLog returned it and reads %s after later NextLog calls", i, out[i], c)
		}
	}
	return out, nil
}

// ReadAll is the full ref + log scan of a table or merged view.
func ReadAll(tab reftable.Table, hashSize int) (refs, logs []string, err error) {
	refs, err = ScanRefs(tab, "")
	if err != nil {
		return refs, nil, fmt.Errorf("ref scan: %v", err)
	}
	logs, err = ScanLogs(tab, "", math.MaxUint64, hashSize)
	if err != nil {
		return refs, logs, fmt.Errorf("log scan: %v", err)
	}
	return refs, logs, nil
}

func Joined(refs, logs []string) string {
	return strings.Join(refs, "\n") + "\n--\n" + strings.Join(logs, "\n")
}

// ---------------------------------------------------------------- transactions

// RefOp is one ref record of a transaction (update index filled in at write time).
type RefOp struct {
	Name   string
	Kind   int    // 0 delete, 1 value, 2 value+peeled, 3 symref
	Val    string // label hashed into the value / symref target
	Peeled string
}

type LogOp struct {
	Name     string
	Deletion bool
	// UI: 0 means "the transaction's update index"; otherwise absolute (for log deletions of older entries)
	UI   uint64
	Msg  string
	Time uint64
	Old  string
	New  string
}

type Txn struct {
	ID   string
	Refs []RefOp
	Logs []LogOp
	// Span widens the table's declared update-index range to [ui, ui+Span]
	// (a batch planned over several indices); the records stay at ui.
	Span uint64
}

func (t Txn) Empty() bool { return len(t.Refs) == 0 && len(t.Logs) == 0 }

// Records materialises the transaction at update index ui as model records,
// normalised the way a reader returns them.
func (t Txn) Records(ui uint64, hashSize int, exactMsg bool) ([]refdb.Ref, []refdb.Log) {
	var refs []refdb.Ref
	for _, r := range t.Refs {
		m := refdb.Ref{Name: r.Name, UpdateIndex: ui, Kind: r.Kind}
		switch r.Kind {
		case 1:
			m.Value = Hash(r.Val, hashSize)
		case 2:
			m.Value = Hash(r.Val, hashSize)
			m.Peeled = Hash(r.Peeled, hashSize)
		case 3:
			m.Symref = r.Val
		}
		refs = append(refs, m)
	}
	sort.Slice(refs, func(i, j int) bool { return refs[i].Name < refs[j].Name })
	var logs []refdb.Log
	for _, l := range t.Logs {
		u := l.UI
		if u == 0 {
			u = ui
		}
		m := refdb.Log{Name: l.Name, UpdateIndex: u, Deletion: l.Deletion}
		if !l.Deletion {
			m.Old = Hash(l.Old, hashSize)
			m.New = Hash(l.New, hashSize)
			m.Who = "w"
			m.Email = "e@x"
			m.Time = l.Time
			m.TZ = 60
			m.Message = l.Msg
			if !exactMsg {
				m.Message = strings.TrimSpace(m.Message) + "\n"
			}
		}
		logs = append(logs, m)
	}
	sort.Slice(logs, func(i, j int) bool {
		if logs[i].Name != logs[j].Name {
			return logs[i].Name+"\x00" < logs[j].Name+"\x00"
		}
		return logs[i].UpdateIndex > logs[j].UpdateIndex
	})
	return refs, logs
}

// Write emits the transaction through the real writer at update index ui.
func (t Txn) Write(w *reftable.Writer, ui uint64, hashSize int) error {
	refs, logs := t.Records(ui, hashSize, true)
	w.SetLimits(ui, ui+t.Span)
	for _, r := range refs {
		rec := reftable.RefRecord{RefName: r.Name, UpdateIndex: r.UpdateIndex, Value: r.Value, TargetValue: r.Peeled, Target: r.Symref}
		if err := w.AddRef(&rec); err != nil {
			return err
		}
	}
	for _, l := range logs {
		rec := reftable.LogRecord{RefName: l.Name, UpdateIndex: l.UpdateIndex}
		if !l.Deletion {
			rec.Old, rec.New, rec.Name, rec.Email, rec.Time, rec.TZOffset, rec.Message = l.Old, l.New, l.Who, l.Email, l.Time, l.TZ, l.Message
		}
		if err := w.AddLog(&rec); err != nil {
			return err
		}
	}
	return nil
}

// ModelRefsCanon / ModelLogsCanon render model records in the shared canonical form.
func ModelCanon(db *refdb.DB, hashSize int) string { return db.CanonString(hashSize) }

// TableCanon renders a decoded table the same way.
func TableCanon(t *fmtspec.Table) (refs, logs []string) {
	for _, r := range t.Refs {
		refs = append(refs, refdb.RefCanon(r))
	}
	for _, l := range t.Logs {
		logs = append(logs, refdb.LogCanon(l, t.HashSize))
	}
	return
}

// ErrString classifies an error returned by the stack API.
func ErrString(err error) string {
	switch {
	case err == nil:
		return "ok"
	case err == reftable.ErrLockFailure:
		return "lockfail"
	}
	return "err: " + err.Error()
}
