// Package hist holds the sequential history search over one Stack handle that
// serves C07 (compaction never changes what readers see) and the stack half of
// C14 (every table file written by Add or by compaction is well-formed).
package hist

import (
	"encoding/json"
	"fmt"
	"sort"
	"strings"

	"github.com/google/reftable"
	"github.com/google/reftable/zz_verif/rt"

	"verif/engine/mc"
	"verif/internal/hx"
	"verif/internal/stk"
	"verif/model/fmtspec"
	"verif/model/refdb"
)

// Sink receives what the search finds.
type Sink interface {
	Violate(sig, msg string, hist interface{})
	Count(what string, n int)
	Sample(s string)
}

// Op is one step of a history.
type Op struct {
	Kind string // set del sym tag log dellog | range all
	Name string `json:",omitempty"`
	I    int    `json:",omitempty"`
	J    int    `json:",omitempty"`
}

func (o Op) String() string {
	switch o.Kind {
	case "range":
		return fmt.Sprintf("compact(%d,%d)", o.I, o.J)
	case "all":
		return "CompactAll"
	}
	return o.Kind + " " + o.Name
}

type History struct {
	Cfg  string
	Auto bool
	Ops  []Op
}

var cfgs = map[string]reftable.Config{
	"default":   {},
	"s256":      {HashID: reftable.SHA256ID},
	"unaligned": {Unaligned: true},
	"bs128":     {BlockSize: 128},
	"exact":     {ExactLogMessage: true},
	"highui":    {}, // the first transaction is written at update index 2^32
}

var txnOps = []Op{{Kind: "set", Name: "refs/a"}, {Kind: "del", Name: "refs/a"}, {Kind: "log", Name: "refs/a"}, {Kind: "tag", Name: "refs/b"},
	{Kind: "dellog", Name: "refs/a"}, {Kind: "sym", Name: "refs/a"}, {Kind: "del", Name: "refs/b"}, {Kind: "log", Name: "refs/b"}}

var compOps = []Op{{Kind: "all"}, {Kind: "range", I: 0, J: 1}, {Kind: "range", I: 1, J: 2}, {Kind: "range", I: 0, J: 2}, {Kind: "range", I: 2, J: 3}, {Kind: "range", I: 1, J: 3}}

// richOps are transactions that put several records, refs AND log entries, into one table (what git writes
// for an ordinary update): compaction then meets tables that hold both sections.
var richOps = []Op{{Kind: "setlog", Name: "refs/a"}, {Kind: "multi", Name: "refs/a"}}

type bounds struct {
	txns, comps int
	rich        bool
}

// runner replays histories.
type runner struct {
	prop string
	sink Sink
	seen map[string]int // state key -> remaining budget already explored
	// validated table contents (by hash) so that each distinct file is decoded once
	validated map[string]bool
	states    int
	trans     int
	hists     int
	nontriv   int
	maxDepth  int
}

type live struct {
	w       *mc.World
	st      *reftable.Stack
	model   *refdb.DB // live view (no tombstones)
	hs      int
	cfg     reftable.Config
	step    int
	tomb    bool // some table holds a tombstone or a log entry
	compAny bool
}

func (l *live) view() (string, error) {
	refs, logs, err := hx.ReadAll(l.st.Merged(), l.hs)
	if err != nil {
		return "", err
	}
	return hx.Joined(refs, logs), nil
}

// lookupNames are the names every point lookup is made for (the two names the transactions use, one absent).
var lookupNames = []string{"refs/a", "refs/b", "refs/zz"}

// lookups is what a reader sees through point lookups instead of scans: ReadRef of every name and RefsFor
// of every object id the model knows (plus one it does not), through the handle's merged view.
func (l *live) lookups() (string, error) {
	m := l.st.Merged()
	var sb strings.Builder
	for _, n := range lookupNames {
		rec, err := reftable.ReadRef(m, n)
		if err != nil {
			return "", fmt.Errorf("ReadRef(%s): %v", n, err)
		}
		if rec == nil {
			fmt.Fprintf(&sb, "ReadRef(%s) = absent\n", n)
		} else {
			fmt.Fprintf(&sb, "ReadRef(%s) = %s\n", n, hx.RefCanon(rec))
		}
	}
	for _, oid := range l.oids() {
		it, err := m.RefsFor(oid)
		if err != nil {
			return "", fmt.Errorf("RefsFor(%x): %v", oid, err)
		}
		var got []string
		var rec reftable.RefRecord
		for {
			ok, err := it.NextRef(&rec)
			if err != nil {
				return "", fmt.Errorf("RefsFor(%x) iteration: %v", oid, err)
			}
			if !ok {
				break
			}
			got = append(got, hx.RefCanon(&rec))
		}
		fmt.Fprintf(&sb, "RefsFor(%x) = %v\n", oid[:4], got)
	}
	return sb.String(), nil
}

// oids are the object ids worth asking for: every value and peeled value of the model, and an absent one.
func (l *live) oids() [][]byte {
	seen := map[string]bool{}
	var out [][]byte
	for _, r := range l.model.SortedRefs() {
		for _, v := range [][]byte{r.Value, r.Peeled} {
			if v != nil && !seen[string(v)] {
				seen[string(v)] = true
				out = append(out, v)
			}
		}
	}
	return append(out, hx.Hash("no such object", l.hs))
}

func (l *live) modelLookups() string {
	var sb strings.Builder
	for _, n := range lookupNames {
		if r, ok := l.model.Refs[n]; ok && r.Kind != 0 {
			fmt.Fprintf(&sb, "ReadRef(%s) = %s\n", n, refdb.RefCanon(r))
		} else {
			fmt.Fprintf(&sb, "ReadRef(%s) = absent\n", n)
		}
	}
	for _, oid := range l.oids() {
		var want []string
		for _, r := range l.model.RefsFor(oid) {
			want = append(want, refdb.RefCanon(r))
		}
		fmt.Fprintf(&sb, "RefsFor(%x) = %v\n", oid[:4], want)
	}
	return sb.String()
}

// newestLog returns the newest live log entry of a ref in the model.
func newestLog(m *refdb.DB, name string) (uint64, bool) {
	var best uint64
	found := false
	for k, l := range m.Logs {
		if k.Name == name && !l.Deletion && (!found || k.UI > best) {
			best, found = k.UI, true
		}
	}
	return best, found
}

func dirTables(w *mc.World) map[string]bool {
	m := map[string]bool{}
	for _, n := range w.Names() {
		if strings.HasSuffix(n, ".ref") {
			m[n] = true
		}
	}
	return m
}

func listNames(w *mc.World) []string {
	ino := w.Lookup("tables.list")
	if ino == nil {
		return nil
	}
	var out []string
	for _, l := range strings.Split(string(ino.Data), "\n") {
		if l != "" {
			out = append(out, l)
		}
	}
	return out
}

func guard(fn func() error) (err error) {
	defer func() {
		if r := recover(); r != nil {
			if fmt.Sprintf("%T", r) == "mc.killSentinel" {
				panic(r)
			}
			err = fmt.Errorf("panic: %v", r)
		}
	}()
	return fn()
}

// apply performs one op on the live state and checks the oracles. ok=false: op not applicable here.
func (r *runner) apply(l *live, o Op, h *History, check bool) (applicable bool) {
	l.step++
	before := dirTables(l.w)
	beforeList := listNames(l.w)
	var beforeDecoded []*fmtspec.Table
	viol := func(sig, msg string) {
		if check {
			r.sink.Violate(sig, fmt.Sprintf("history %v [cfg %s, auto=%v]: %s", h.Ops, h.Cfg, h.Auto, msg), h)
		}
	}
	switch o.Kind {
	case "range", "all":
		n := l.st.VerifLen()
		first, last := o.I, o.J
		if o.Kind == "all" {
			first, last = 0, n-1
		}
		if last >= n || first >= last {
			return false
		}
		for _, nm := range beforeList {
			if ino := l.w.Lookup(nm); ino != nil {
				if t, err := fmtspec.Decode(ino.Data); err == nil {
					beforeDecoded = append(beforeDecoded, t)
				}
			}
		}
		v0, err := l.view()
		if err != nil {
			viol("compaction:view-unreadable-before", err.Error())
			return true
		}
		err = guard(func() error {
			if o.Kind == "all" {
				return l.st.CompactAll(nil)
			}
			ok, err := l.st.VerifCompactRange(first, last, nil)
			if err == nil && !ok {
				return fmt.Errorf("compaction reported failure without contention")
			}
			return err
		})
		if err != nil {
			viol("compaction:fails:"+errClass(err.Error()), fmt.Sprintf("%s fails: %v", o, err))
			return true
		}
		l.compAny = true
		v1, err := l.view()
		if err != nil {
			viol("compaction:view-unreadable-after:"+errClass(err.Error()), fmt.Sprintf("after %s the stack cannot be read: %v", o, err))
			return true
		}
		if v0 != v1 {
			viol("compaction:view-changed@"+kindOf(first), fmt.Sprintf("%s changed what readers see.\n--- before\n%s\n--- after\n%s", o, v0, v1))
		}
		if want := l.model.CanonString(l.hs); v1 != want {
			viol("compaction:view-differs-from-model", fmt.Sprintf("after %s the view differs from the reference map.\n--- got\n%s\n--- want\n%s", o, v1, want))
		}
		if lk, err := l.lookups(); err != nil {
			viol("compaction:lookup-fails-after:"+errClass(err.Error()), fmt.Sprintf("after %s a point lookup fails: %v", o, err))
		} else if want := l.modelLookups(); lk != want {
			viol("compaction:lookups-differ-from-model", fmt.Sprintf("after %s point lookups (ReadRef, RefsFor) differ from the reference map.\n--- got\n%s--- want\n%s", o, lk, want))
		}
		if got := len(listNames(l.w)); got > len(beforeList)-(last-first) {
			viol("compaction:table-count", fmt.Sprintf("%s left %d tables, had %d", o, got, len(beforeList)))
		}
		// C14: the compacted table must hold exactly the overlay of its inputs
		if len(beforeDecoded) == len(beforeList) {
			r.checkCompactedTable(l, before, beforeDecoded[first:last+1], first == 0, o, viol)
		}
	default:
		ui := l.st.NextUpdateIndex()
		if h.Cfg == "highui" && ui == 1 {
			ui = 1 << 32
		}
		t := hx.Txn{ID: fmt.Sprintf("s%d", l.step)}
		switch o.Kind {
		case "set":
			t.Refs = []hx.RefOp{{Name: o.Name, Kind: 1, Val: fmt.Sprintf("v%d", l.step)}}
		case "del":
			t.Refs = []hx.RefOp{{Name: o.Name, Kind: 0}}
			l.tomb = true
		case "sym":
			t.Refs = []hx.RefOp{{Name: o.Name, Kind: 3, Val: "refs/b"}}
		case "tag":
			t.Refs = []hx.RefOp{{Name: o.Name, Kind: 2, Val: fmt.Sprintf("t%d", l.step), Peeled: fmt.Sprintf("p%d", l.step)}}
		case "log":
			msg := fmt.Sprintf("step %d", l.step)
			if l.cfg.ExactLogMessage {
				msg += "\n second line" // kept verbatim: embedded newline, no trailing newline
			}
			t.Logs = []hx.LogOp{{Name: o.Name, Msg: msg, Time: uint64(1000 + l.step), Old: "o", New: fmt.Sprintf("n%d", l.step)}}
			l.tomb = true
		case "setlog":
			t.Refs = []hx.RefOp{{Name: o.Name, Kind: 1, Val: fmt.Sprintf("v%d", l.step)}}
			t.Logs = []hx.LogOp{{Name: o.Name, Msg: fmt.Sprintf("update %d", l.step), Time: uint64(1000 + l.step), Old: "o", New: fmt.Sprintf("v%d", l.step)}}
			l.tomb = true
		case "multi":
			t.Refs = []hx.RefOp{{Name: "refs/a", Kind: 1, Val: fmt.Sprintf("v%d", l.step)}, {Name: "refs/b", Kind: 2, Val: fmt.Sprintf("t%d", l.step), Peeled: fmt.Sprintf("v%d", l.step)}}
			t.Logs = []hx.LogOp{{Name: "refs/a", Msg: fmt.Sprintf("a %d", l.step), Time: uint64(1000 + l.step), Old: "o", New: fmt.Sprintf("v%d", l.step)},
				{Name: "refs/b", Msg: fmt.Sprintf("b %d", l.step), Time: uint64(1000 + l.step), Old: "o", New: fmt.Sprintf("t%d", l.step)}}
			l.tomb = true
		case "dellog":
			u, ok := newestLog(l.model, o.Name)
			if !ok {
				return false
			}
			t.Logs = []hx.LogOp{{Name: o.Name, Deletion: true, UI: u}}
			l.tomb = true
		}
		err := guard(func() error {
			return l.st.Add(func(wr *reftable.Writer) error { return t.Write(wr, ui, l.hs) })
		})
		if err != nil {
			viol("add:fails:"+errClass(err.Error()), fmt.Sprintf("%s fails: %v", o, err))
			return true
		}
		refs, logs := t.Records(ui, l.hs, l.cfg.ExactLogMessage)
		for _, rr := range refs {
			if rr.Kind == 0 {
				delete(l.model.Refs, rr.Name)
			} else {
				l.model.PutRef(rr)
			}
		}
		for _, lg := range logs {
			if lg.Deletion {
				delete(l.model.Logs, refdb.LogKey{Name: lg.Name, UI: lg.UpdateIndex})
			} else {
				l.model.PutLog(lg)
			}
		}
		v1, err := l.view()
		if err != nil {
			viol("add:view-unreadable-after:"+errClass(err.Error()), fmt.Sprintf("after %s the stack cannot be read: %v", o, err))
			return true
		}
		if want := l.model.CanonString(l.hs); v1 != want {
			sig := "add:view-differs-from-model"
			if h.Auto {
				sig = "autocompact:view-differs-from-model"
			}
			viol(sig, fmt.Sprintf("after %s the view differs from the reference map.\n--- got\n%s\n--- want\n%s", o, v1, want))
		}
		if lk, err := l.lookups(); err != nil {
			viol("add:lookup-fails-after:"+errClass(err.Error()), fmt.Sprintf("after %s a point lookup fails: %v", o, err))
		} else if want := l.modelLookups(); lk != want {
			sig := "add:lookups-differ-from-model"
			if h.Auto {
				sig = "autocompact:lookups-differ-from-model"
			}
			viol(sig, fmt.Sprintf("after %s point lookups (ReadRef, RefsFor) differ from the reference map.\n--- got\n%s--- want\n%s", o, lk, want))
		}
	}
	// whatever the operation was, every table the list names must still be there
	for _, n := range listNames(l.w) {
		if l.w.Lookup(n) == nil {
			viol("history:listed-table-removed@"+o.Kind, fmt.Sprintf("after %s tables.list names %s, which no longer exists (list %v, directory %v)", o, n, listNames(l.w), l.w.Names()))
			return true
		}
	}
	// a handle opened now sees the same as this one
	if v2, err := freshView(l); err != nil {
		viol("history:fresh-open-fails@"+o.Kind+":"+errClass(err.Error()), fmt.Sprintf("after %s a fresh NewStack+scan fails: %v", o, err))
	} else if want := l.model.CanonString(l.hs); v2 != want {
		viol("history:fresh-view-differs@"+o.Kind, fmt.Sprintf("after %s a freshly opened handle sees\n%s\n--- want\n%s", o, v2, want))
	}
	// C14: every new table file is well-formed
	for n := range dirTables(l.w) {
		if before[n] {
			continue
		}
		ino := l.w.Lookup(n)
		k := fmt.Sprintf("%x/%d", ino.Hash(), len(ino.Data))
		if r.validated[k] {
			continue
		}
		r.validated[k] = true
		r.sink.Count("tables_validated", 1)
		if _, err := fmtspec.Decode(ino.Data); err != nil {
			viol("wellformed:stack-table:"+errClass(err.Error()), fmt.Sprintf("table %s written by %s is not well-formed: %v", n, o, err))
		}
	}
	return true
}

func kindOf(first int) string {
	if first == 0 {
		return "range-includes-oldest"
	}
	return "range-above-older-tables"
}

// checkCompactedTable: the one new table must decode to the overlay of its inputs
// (tombstones dropped only when the range includes the oldest table).
func (r *runner) checkCompactedTable(l *live, before map[string]bool, inputs []*fmtspec.Table, dropTombs bool, o Op, viol func(sig, msg string)) {
	var fresh []string
	for n := range dirTables(l.w) {
		if !before[n] {
			fresh = append(fresh, n)
		}
	}
	want := refdb.Overlay(inputs)
	if dropTombs {
		// ref tombstones may be dropped; log tombstones are rewritten as they are
		for k, v := range want.Refs {
			if v.Kind == 0 {
				delete(want.Refs, k)
			}
		}
	}
	wr, wl := want.Canon(l.hs)
	if len(fresh) == 0 {
		if len(wr)+len(wl) != 0 {
			viol("wellformed:compaction-output-missing", fmt.Sprintf("%s produced no table although its inputs hold %d refs and %d logs", o, len(wr), len(wl)))
		}
		return
	}
	if len(fresh) > 1 {
		viol("wellformed:compaction-several-outputs", fmt.Sprintf("%s produced %v", o, fresh))
		return
	}
	t, err := fmtspec.Decode(l.w.Lookup(fresh[0]).Data)
	if err != nil {
		return // reported by the generic rule
	}
	gr, gl := hx.TableCanon(t)
	if strings.Join(gr, "\n") != strings.Join(wr, "\n") || strings.Join(gl, "\n") != strings.Join(wl, "\n") {
		viol("wellformed:compaction-output-differs-from-inputs", fmt.Sprintf("%s wrote a table that is not the newest-wins overlay of its inputs.\n--- got\n%s\n--- want\n%s", o, hx.Joined(gr, gl), hx.Joined(wr, wl)))
	}
	if t.Min != inputs[0].Min || t.Max != inputs[len(inputs)-1].Max {
		viol("wellformed:compaction-output-limits", fmt.Sprintf("%s wrote limits [%d,%d], inputs span [%d,%d]", o, t.Min, t.Max, inputs[0].Min, inputs[len(inputs)-1].Max))
	}
}

var errRe = strings.NewReplacer()

func errClass(s string) string {
	f := strings.Fields(s)
	for i, w := range f {
		if strings.Contains(w, "0x") || strings.Contains(w, "/") || strings.ContainsAny(w, "0123456789") {
			f[i] = "_"
		}
	}
	out := strings.Join(f, "_")
	if len(out) > 80 {
		out = out[:80]
	}
	return out
}

// replay builds the live state for a history (checking only the last step unless checkAll).
func (r *runner) replay(h *History, checkAll bool) (*live, bool) {
	cfg := cfgs[h.Cfg]
	w := mc.NewWorld(stk.Dir)
	rt.E = w
	w.Atomic = true
	w.Proc(0)
	l := &live{w: w, model: refdb.New(), hs: stk.HashSize(cfg), cfg: cfg}
	var ok = true
	err := w.As(0, func() error {
		st, err := reftable.NewStack(stk.Dir, cfg)
		if err != nil {
			return err
		}
		st.VerifSetAutoCompact(h.Auto)
		l.st = st
		for i, o := range h.Ops {
			if !r.apply(l, o, h, checkAll || i == len(h.Ops)-1) {
				ok = false
				return nil
			}
		}
		return nil
	})
	if err != nil {
		r.sink.Violate("history:open-fails", fmt.Sprintf("NewStack on an empty directory: %v", err), h)
		return nil, false
	}
	return l, ok
}

// freshView opens the directory with a second handle (same process) and scans it.
func freshView(l *live) (string, error) {
	var out string
	err := guard(func() error {
		st, err := reftable.NewStack(stk.Dir, l.cfg)
		if err != nil {
			return err
		}
		defer st.Close()
		refs, logs, err := hx.ReadAll(st.Merged(), l.hs)
		if err != nil {
			return err
		}
		out = hx.Joined(refs, logs)
		return nil
	})
	return out, err
}

func (r *runner) stateKey(l *live) string {
	var sb strings.Builder
	for _, n := range listNames(l.w) {
		ino := l.w.Lookup(n)
		if ino == nil {
			sb.WriteString("MISSING,")
			continue
		}
		fmt.Fprintf(&sb, "%x/%d,", ino.Hash(), len(ino.Data))
	}
	sb.WriteString("|")
	sb.WriteString(strings.Join(l.st.VerifNames(), ","))
	// residue matters too
	for _, n := range l.w.Names() {
		if !strings.HasSuffix(n, ".ref") && n != "tables.list" {
			sb.WriteString("+" + n)
		}
	}
	return sb.String()
}

func (r *runner) explore(h *History, b bounds, wi, wn int, depth0 *int) {
	nt, nc := 0, 0
	for _, o := range h.Ops {
		if o.Kind == "range" || o.Kind == "all" {
			nc++
		} else {
			nt++
		}
	}
	var menu []Op
	if nt < b.txns {
		menu = append(menu, txnOps...)
		if b.rich {
			menu = append(menu, richOps...)
		}
	}
	if nc < b.comps && !h.Auto {
		menu = append(menu, compOps...)
	}
	for _, o := range menu {
		child := &History{Cfg: h.Cfg, Auto: h.Auto, Ops: append(append([]Op{}, h.Ops...), o)}
		if len(child.Ops) == 1 {
			// partition the search by first operation x configuration
			*depth0++
			if (*depth0-1)%wn != wi {
				continue
			}
		}
		l, ok := r.replay(child, false)
		rt.E = nil
		if l == nil || !ok {
			continue
		}
		// (the fault variants of a compaction are run in the plain searches; the rich slices only add table shapes)
		if (o.Kind == "range" || o.Kind == "all") && nc == 0 && len(child.Ops) <= 4 && !b.rich {
			r.faultVariants(child)
		}
		r.trans++
		r.hists++
		if len(child.Ops) > r.maxDepth {
			r.maxDepth = len(child.Ops)
		}
		if l.compAny && l.tomb {
			r.nontriv++
		}
		rem := (b.txns-nt)*8 + (b.comps - nc)
		if o.Kind == "range" || o.Kind == "all" {
			rem--
		} else {
			rem -= 8
		}
		if b.rich {
			rem += 1000 // a separate search: its menu is larger, so budgets are not comparable with the plain one
		}
		key := r.stateKey(l)
		if old, seen := r.seen[key]; seen && old >= rem {
			continue
		}
		if _, seen := r.seen[key]; !seen {
			r.states++
		}
		r.seen[key] = rem
		if r.hists%5000 == 1 {
			js, _ := json.Marshal(child.Ops)
			r.sink.Sample(fmt.Sprintf("cfg=%s auto=%v ops=%s -> tables %d", child.Cfg, child.Auto, js, len(listNames(l.w))))
		}
		r.explore(child, b, wi, wn, depth0)
	}
}

// faultVariants re-runs the last (compaction) step of h once for every filesystem call it makes,
// with that call failing with EIO (reads and writes included). Whether the compaction then fails or
// not, readers must see what they saw before, every listed table must exist and a fresh handle must agree.
func (r *runner) faultVariants(h *History) {
	prefix := &History{Cfg: h.Cfg, Auto: h.Auto, Ops: h.Ops[:len(h.Ops)-1]}
	last := h.Ops[len(h.Ops)-1]
	// number of filesystem calls of the fault-free compaction
	l, ok := r.replay(prefix, false)
	if l == nil || !ok {
		rt.E = nil
		return
	}
	p := l.w.Proc(0)
	p.OpCount = 0
	l.w.As(0, func() error { r.apply(l, last, h, false); return nil })
	n := p.OpCount
	rt.E = nil
	for k := 1; k <= n; k++ {
		l, ok := r.replay(prefix, false)
		if l == nil || !ok {
			rt.E = nil
			return
		}
		r.sink.Count("fault_variants", 1)
		viol := func(sig, msg string) {
			r.sink.Violate(sig, fmt.Sprintf("history %v [cfg %s] with the compaction's filesystem call #%d of %d failing with EIO: %s", h.Ops, h.Cfg, k, n, msg), map[string]interface{}{"History": h, "FaultAt": k})
		}
		l.w.As(0, func() error {
			v0, err := l.view()
			if err != nil {
				return nil
			}
			p := l.w.Proc(0)
			p.OpCount = 0
			p.FaultAt = k
			cerr := guard(func() error {
				if last.Kind == "all" {
					return l.st.CompactAll(nil)
				}
				_, err := l.st.VerifCompactRange(last.I, last.J, nil)
				return err
			})
			p.FaultAt = 0
			if cerr != nil && strings.HasPrefix(cerr.Error(), "panic") {
				viol("fault:compaction-panics", cerr.Error())
				return nil
			}
			for _, nm := range listNames(l.w) {
				if l.w.Lookup(nm) == nil {
					viol("fault:listed-table-removed", fmt.Sprintf("tables.list names %s, which no longer exists (compaction returned %v)", nm, cerr))
					return nil
				}
			}
			if v2, err := freshView(l); err != nil {
				viol("fault:fresh-open-fails:"+errClass(err.Error()), fmt.Sprintf("a fresh NewStack+scan fails: %v (compaction returned %v)", err, cerr))
			} else if v2 != v0 {
				viol("fault:view-changed", fmt.Sprintf("compaction returned %v and a freshly opened handle now sees\n%s\n--- before\n%s", cerr, v2, v0))
			}
			if cerr == nil {
				// the compacting handle itself must still read the same
				if v1, err := l.view(); err != nil || v1 != v0 {
					viol("fault:own-view-changed", fmt.Sprintf("compaction reported success but the handle's view changed (err=%v)", err))
				}
			}
			return nil
		})
		rt.E = nil
	}
}

// RunC07 runs the history search for worker wi of wn.
func RunC07(prop, tier string, wi, wn int, sink Sink) {
	quick := tier != "thorough"
	names := []string{"default", "s256", "highui"}
	b := bounds{txns: 3, comps: 2}
	bAuto := bounds{txns: 5}
	if !quick {
		names = []string{"default", "s256", "unaligned", "bs128", "exact", "highui"}
		b = bounds{txns: 4, comps: 2}
		bAuto = bounds{txns: 6}
	}
	if prop == "C14" && quick {
		// C14 only needs the emitted files; one configuration pair at the base depth is enough for the quick tier
		names = []string{"bs128"}
	}
	sort.Strings(names)
	r := &runner{prop: prop, sink: sink, seen: map[string]int{}, validated: map[string]bool{}}
	d0 := 0
	for _, cn := range names {
		r.seen = map[string]int{}
		r.explore(&History{Cfg: cn}, b, wi, wn, &d0)
		r.seen = map[string]int{}
		r.explore(&History{Cfg: cn, Auto: true}, bAuto, wi, wn, &d0)
		if quick && cn == "default" {
			// exact log messages at a reduced bound (the full bound is in the thorough tier)
			r.seen = map[string]int{}
			r.explore(&History{Cfg: "exact"}, bounds{txns: 3, comps: 1}, wi, wn, &d0)
			// one deeper slice: 4 transactions then a single compaction
			r.seen = map[string]int{}
			r.explore(&History{Cfg: cn}, bounds{txns: 4, comps: 1}, wi, wn, &d0)
			// transactions that write refs and log entries into ONE table, at a reduced bound
			r.seen = map[string]int{}
			r.explore(&History{Cfg: cn}, bounds{txns: 3, comps: 1, rich: true}, wi, wn, &d0)
			r.seen = map[string]int{}
			r.explore(&History{Cfg: cn, Auto: true}, bounds{txns: 4, rich: true}, wi, wn, &d0)
		}
		if quick && prop == "C14" {
			// C14's quick tier: the files written by transactions that hold refs and log entries together
			r.seen = map[string]int{}
			r.explore(&History{Cfg: cn}, bounds{txns: 3, comps: 1, rich: true}, wi, wn, &d0)
		}
		if !quick && (cn == "default" || cn == "bs128") {
			r.seen = map[string]int{}
			r.explore(&History{Cfg: cn}, bounds{txns: 4, comps: 2, rich: true}, wi, wn, &d0)
			r.seen = map[string]int{}
			r.explore(&History{Cfg: cn, Auto: true}, bounds{txns: 5, rich: true}, wi, wn, &d0)
		}
	}
	sink.Count("states", r.states)
	sink.Count("transitions", r.trans)
	sink.Count("histories", r.hists)
	sink.Count("nontrivial", r.nontriv)
	sink.Count("max_depth", r.maxDepth)
}

// ReplayC07 re-executes one recorded history with all checks on.
func ReplayC07(prop string, raw json.RawMessage, sink Sink) error {
	var h History
	if err := json.Unmarshal(raw, &h); err != nil {
		return err
	}
	r := &runner{prop: prop, sink: sink, seen: map[string]int{}, validated: map[string]bool{}}
	r.replay(&h, true)
	rt.E = nil
	return nil
}
