// Package deephash hashes an object graph through unexported fields (reflect
// walk), for the "package-level state" part of state keys and for the
// frozen-state invariant of C19.
package deephash

import (
	"fmt"
	"hash"
	"hash/fnv"
	"reflect"
	"sort"
	"strings"
)

type walker struct {
	h    hash.Hash64
	seen map[uintptr]int
}

// Of hashes the values reachable from roots.
func Of(roots ...interface{}) uint64 {
	w := &walker{h: fnv.New64a(), seen: map[uintptr]int{}}
	for _, r := range roots {
		w.walk(reflect.ValueOf(r), 0)
	}
	return w.h.Sum64()
}

func (w *walker) str(s string) { w.h.Write([]byte(s)); w.h.Write([]byte{0}) }

func (w *walker) walk(v reflect.Value, depth int) {
	if !v.IsValid() {
		w.str("<invalid>")
		return
	}
	if depth > 64 {
		w.str("<deep>")
		return
	}
	t := v.Type()
	switch v.Kind() {
	case reflect.Ptr:
		if v.IsNil() {
			w.str("nilptr")
			return
		}
		p := v.Pointer()
		if id, ok := w.seen[p]; ok {
			fmt.Fprintf(w.h, "back%d|", id)
			return
		}
		w.seen[p] = len(w.seen)
		if t.Elem().PkgPath() == "math/rand" || strings.HasPrefix(t.Elem().PkgPath(), "verif/") || strings.HasSuffix(t.Elem().PkgPath(), "/zz_verif/vsync") {
			w.str("opaque")
			return
		}
		w.walk(v.Elem(), depth+1)
	case reflect.Interface:
		if v.IsNil() {
			w.str("nilif")
			return
		}
		w.str(v.Elem().Type().String())
		w.walk(v.Elem(), depth+1)
	case reflect.Struct:
		if t.PkgPath() == "math/rand" || t.PkgPath() == "sync" || t.PkgPath() == "sync/atomic" || strings.HasPrefix(t.PkgPath(), "verif/") || strings.HasSuffix(t.PkgPath(), "/zz_verif/vsync") {
			// random sources, synchronisation primitives and the verification engine's own objects
			// (scheduler, in-memory files) are not state of the code under test
			w.str("opaque:" + t.String())
			return
		}
		for i := 0; i < v.NumField(); i++ {
			w.str(t.Field(i).Name)
			w.walk(v.Field(i), depth+1)
		}
	case reflect.Slice:
		if v.IsNil() {
			w.str("nilslice")
			return
		}
		fmt.Fprintf(w.h, "len%d|", v.Len())
		if t.Elem().Kind() == reflect.Uint8 {
			w.h.Write(v.Bytes())
			return
		}
		for i := 0; i < v.Len(); i++ {
			w.walk(v.Index(i), depth+1)
		}
	case reflect.Array:
		for i := 0; i < v.Len(); i++ {
			w.walk(v.Index(i), depth+1)
		}
	case reflect.Map:
		if v.IsNil() {
			w.str("nilmap")
			return
		}
		// entries are visited in the order of their key hashes, with the one walker: the ids handed to
		// pointers (for back references) must not depend on Go's random map iteration order
		type kv struct {
			k uint64
			v reflect.Value
		}
		var ents []kv
		it := v.MapRange()
		for it.Next() {
			a := &walker{h: fnv.New64a(), seen: map[uintptr]int{}}
			a.walk(it.Key(), depth+1)
			ents = append(ents, kv{a.h.Sum64(), it.Value()})
		}
		sort.Slice(ents, func(i, j int) bool { return ents[i].k < ents[j].k })
		for _, e := range ents {
			fmt.Fprintf(w.h, "%x=", e.k)
			w.walk(e.v, depth+1)
			w.str("|")
		}
	case reflect.String:
		w.str(v.String())
	case reflect.Bool:
		fmt.Fprintf(w.h, "%v|", v.Bool())
	case reflect.Int, reflect.Int8, reflect.Int16, reflect.Int32, reflect.Int64:
		fmt.Fprintf(w.h, "%d|", v.Int())
	case reflect.Uint, reflect.Uint8, reflect.Uint16, reflect.Uint32, reflect.Uint64, reflect.Uintptr:
		fmt.Fprintf(w.h, "%d|", v.Uint())
	case reflect.Float32, reflect.Float64:
		fmt.Fprintf(w.h, "%v|", v.Float())
	case reflect.Func:
		if v.IsNil() {
			w.str("nilfunc")
		} else {
			w.str("func")
		}
	case reflect.Chan, reflect.UnsafePointer:
		w.str("opaque")
	default:
		w.str("?" + t.String())
	}
}
