package main

import (
	"encoding/json"

	"verif/internal/hist"
)

func (r *result) Violate(sig, msg string, h interface{}) { r.violate(sig, msg, h) }
func (r *result) Sample(s string) {
	if len(r.Samples) < 4 {
		r.Samples = append(r.Samples, s)
	}
}
func (r *result) Count(what string, n int) {
	switch what {
	case "states":
		r.States += n
	case "transitions":
		r.Transitions += n
	case "histories":
		r.Histories += n
	case "nontrivial":
		r.Nontrivial += n
	case "max_depth":
		if n > r.MaxDepth {
			r.MaxDepth = n
		}
	case "tables_validated":
		r.Tables += n
	default:
		r.Extra[what] += n
	}
}

func runC07(prop, tier string, wi, wn int, res *result) { hist.RunC07(prop, tier, wi, wn, res) }

func replayC07(prop string, raw json.RawMessage, res *result) error {
	return hist.ReplayC07(prop, raw, res)
}
