package main

import (
	"encoding/json"
	"fmt"
	"strings"

	"github.com/google/reftable"
	"github.com/google/reftable/zz_verif/rt"

	"verif/engine/mc"
	"verif/internal/hx"
	"verif/internal/stk"
	"verif/model/fmtspec"
	"verif/model/refdb"
)

// ---------------------------------------------------------------- C09: stale handles

type op9 struct {
	H    int    // handle
	Kind string // add newaddition compactall clean retry
}

func (o op9) String() string { return fmt.Sprintf("h%d.%s", o.H, o.Kind) }

type hist9 struct {
	Handles []string // per handle: "noauto" | "auto" | "s256" (hash mismatch family)
	Ops     []op9
}

type live9 struct {
	w        *mc.World
	held     *reftable.Addition // an open Addition keeping tables.list.lock
	heldBy   int
	hs       []*reftable.Stack
	model    *refdb.DB
	failed   []bool // last op of the handle was a failed Add
	step     int
	staleTry bool
}

func listNames(w *mc.World) []string {
	ino := w.Lookup("tables.list")
	if ino == nil {
		return nil
	}
	var out []string
	for _, l := range strings.Split(string(ino.Data), "\n") {
		if l != "" {
			out = append(out, l)
		}
	}
	return out
}

func dirHash(w *mc.World) string {
	var sb strings.Builder
	for _, n := range w.Names() {
		ino := w.Lookup(n)
		fmt.Fprintf(&sb, "%s=%x/%d;", n, ino.Hash(), len(ino.Data))
	}
	return sb.String()
}

func maxCommitted(w *mc.World) uint64 {
	var m uint64
	for _, n := range listNames(w) {
		if ino := w.Lookup(n); ino != nil {
			if t, err := fmtspec.Decode(ino.Data); err == nil && t.Max > m {
				m = t.Max
			}
		}
	}
	return m
}

func guard(fn func() error) (err error) {
	defer func() {
		if r := recover(); r != nil {
			if fmt.Sprintf("%T", r) == "mc.killSentinel" {
				panic(r)
			}
			err = fmt.Errorf("panic: %v", r)
		}
	}()
	return fn()
}

func cfgOf(kind string) reftable.Config {
	if kind == "s256" {
		return reftable.Config{HashID: reftable.SHA256ID}
	}
	return reftable.Config{}
}

func (l *live9) apply(o op9, h *hist9, res *result, check bool) bool {
	l.step++
	st := l.hs[o.H]
	myHash := "sha1"
	if h.Handles[o.H] == "s256" {
		myHash = "s256"
	}
	mismatch := l.modelHash() != "" && l.modelHash() != myHash
	viol := func(sig, msg string) {
		if check {
			res.violate(sig, fmt.Sprintf("history %v (handles %v): %s", h.Ops, h.Handles, msg), h)
		}
	}
	stale := strings.Join(st.VerifNames(), ",") != strings.Join(listNames(l.w), ",")
	before := dirHash(l.w)
	hsz := 20
	if h.Handles[o.H] == "s256" {
		hsz = 32
	}
	if o.Kind == "retry" && !l.failed[o.H] {
		return false
	}
	if o.Kind == "hold" {
		// take the list lock and keep it (an open transaction of another process)
		if l.held != nil || stale {
			return false
		}
		tr, err := st.NewAddition()
		if err != nil {
			viol("fresh:newaddition-fails:"+short(err.Error()), fmt.Sprintf("%s failed: %v", o, err))
			return true
		}
		l.held, l.heldBy = tr, o.H
		return true
	}
	if o.Kind == "release" {
		if l.held == nil || l.heldBy != o.H {
			return false
		}
		l.held.Close()
		l.held = nil
		if dirHash(l.w) != before {
			// only the lock file may disappear
			if strings.Replace(before, "tables.list.lock=", "", 1) == before {
				viol("hold:release-changed-directory", "closing an Addition changed the directory")
			}
		}
		return true
	}
	if l.held != nil {
		// the list lock is held elsewhere: every write must fail with ErrLockFailure, change nothing,
		// and a failed Add must still leave the handle refreshed
		if l.heldBy == o.H {
			return false
		}
		var err error
		switch o.Kind {
		case "add", "retry":
			t := stk.Txn(fmt.Sprintf("s%d", l.step))
			err = guard(func() error {
				return st.Add(func(wr *reftable.Writer) error { return t.Write(wr, st.NextUpdateIndex(), hsz) })
			})
			l.failed[o.H] = true
			if stale {
				l.staleTry = true
			}
		case "newaddition":
			err = guard(func() error {
				tr, e := st.NewAddition()
				if tr != nil {
					tr.Close()
				}
				return e
			})
		case "clean":
			err = guard(func() error { return st.Clean() })
		case "compactall", "expire":
			err = guard(func() error { return st.CompactAll(nil) })
			if err == nil {
				err = reftable.ErrLockFailure // compaction reports contention as "nothing done"
			}
		}
		if err != reftable.ErrLockFailure {
			viol("locked:write-does-not-fail-with-lock-failure@"+o.Kind, fmt.Sprintf("%s while another handle holds tables.list.lock returned %v", o, err))
		}
		if dirHash(l.w) != before {
			viol("locked:write-changed-directory@"+o.Kind, fmt.Sprintf("%s while another handle holds tables.list.lock changed the directory", o))
		}
		if (o.Kind == "add" || o.Kind == "retry") && !mismatch {
			if up, e := st.UpToDate(); e != nil || !up {
				viol("stale:not-refreshed-after-failed-add", fmt.Sprintf("after %s failed (list lock held elsewhere, handle stale=%v) UpToDate() = %v, %v", o, stale, up, e))
			}
		}
		return true
	}
	wasFailed := l.failed[o.H]
	l.failed[o.H] = false
	switch o.Kind {
	case "add", "retry":
		t := stk.Txn(fmt.Sprintf("s%d", l.step))
		var ui uint64
		err := guard(func() error {
			return st.Add(func(wr *reftable.Writer) error { ui = st.NextUpdateIndex(); return t.Write(wr, ui, hsz) })
		})
		if stale {
			l.staleTry = true
			if err != reftable.ErrLockFailure {
				viol("stale:add-does-not-fail-with-lock-failure", fmt.Sprintf("%s through a stale handle returned %v, want ErrLockFailure", o, err))
			}
			if dirHash(l.w) != before {
				viol("stale:add-changed-directory", fmt.Sprintf("%s through a stale handle changed the directory", o))
			}
			if err == nil {
				return true
			}
			l.failed[o.H] = true
			if mismatch {
				return true
			}
			if up, e := st.UpToDate(); e != nil || !up {
				viol("stale:not-refreshed-after-failed-add", fmt.Sprintf("after the failed %s UpToDate() = %v, %v", o, up, e))
			}
			if n, m := st.NextUpdateIndex(), maxCommitted(l.w); n <= m {
				viol("stale:next-update-index-not-above-committed", fmt.Sprintf("after the failed %s NextUpdateIndex() = %d but index %d is committed", o, n, m))
			}
			return true
		}
		if err != nil {
			if o.Kind == "retry" || wasFailed {
				viol("stale:retry-fails:"+short(err.Error()), fmt.Sprintf("%s immediately after a failed Add, without interference, failed: %v", o, err))
			} else {
				viol("fresh:add-fails:"+short(err.Error()), fmt.Sprintf("%s through an up-to-date handle failed: %v", o, err))
			}
			return true
		}
		if m := maxCommitted(l.w); ui != m && ui < m {
			viol("stale:commit-below-committed-index", fmt.Sprintf("%s committed at update index %d, but %d was already committed", o, ui, m))
		}
		refs, logs := t.Records(ui, hsz, false)
		for _, r := range refs {
			l.model.PutRef(r)
		}
		for _, lg := range logs {
			l.model.PutLog(lg)
		}
		rs, ls, err := hx.ReadAll(st.Merged(), hsz)
		if err != nil || hx.Joined(rs, ls) != l.model.CanonString(hsz) {
			viol("fresh:view-differs-after-add", fmt.Sprintf("after %s the handle's view differs from the model (err=%v)", o, err))
		}
	case "newaddition":
		var tr *reftable.Addition
		err := guard(func() error {
			var e error
			tr, e = st.NewAddition()
			return e
		})
		if stale {
			l.staleTry = true
			if err != reftable.ErrLockFailure {
				viol("stale:newaddition-does-not-fail-with-lock-failure", fmt.Sprintf("%s through a stale handle returned %v, want ErrLockFailure", o, err))
			}
		} else if err != nil {
			viol("fresh:newaddition-fails:"+short(err.Error()), fmt.Sprintf("%s through an up-to-date handle failed: %v", o, err))
		}
		if tr != nil {
			tr.Close()
		}
		if dirHash(l.w) != before {
			viol("stale:newaddition-changed-directory", fmt.Sprintf("%s (stale=%v) followed by Close changed the directory: %s -> %s", o, stale, before, dirHash(l.w)))
		}
	case "compactall", "expire":
		var exp *reftable.LogExpirationConfig
		if o.Kind == "expire" {
			exp = &reftable.LogExpirationConfig{Time: 1} // expires nothing (all entries are newer): the view must not change
		}
		err := guard(func() error { return st.CompactAll(exp) })
		if err != nil {
			viol("compactall-fails:"+short(err.Error()), fmt.Sprintf("%s (stale=%v) failed: %v", o, stale, err))
			return true
		}
		if stale {
			l.staleTry = true
			if dirHash(l.w) != before {
				viol("stale:compaction-changed-directory", fmt.Sprintf("%s through a stale handle changed the directory", o))
			}
		}
	case "clean":
		err := guard(func() error { return st.Clean() })
		if stale {
			l.staleTry = true
			if err == nil {
				viol("stale:clean-succeeds", fmt.Sprintf("%s through a stale handle reported success", o))
			}
			if dirHash(l.w) != before {
				viol("stale:clean-changed-directory", fmt.Sprintf("%s through a stale handle changed the directory", o))
			}
		} else if err != nil {
			viol("fresh:clean-fails:"+short(err.Error()), fmt.Sprintf("%s through an up-to-date handle failed: %v", o, err))
		}
	}
	// whatever happened, the committed state equals the model
	if mh := l.modelHash(); mh != "" {
		hs2 := 20
		if mh == "s256" {
			hs2 = 32
		}
		v2, err := committedView(l.w, hs2)
		if err != nil || v2 != l.model.CanonString(hs2) {
			viol("history:committed-state-differs-from-model@"+o.Kind, fmt.Sprintf("after %s the committed state differs from the model (err=%v):\n%s\n--- want\n%s", o, err, v2, l.model.CanonString(hs2)))
		}
	}
	return true
}

// modelHash returns the hash type of the committed stack ("" if empty).
func (l *live9) modelHash() string {
	for _, n := range listNames(l.w) {
		if ino := l.w.Lookup(n); ino != nil {
			if t, err := fmtspec.Decode(ino.Data); err == nil {
				return t.HashID
			}
		}
	}
	return ""
}

func committedView(w *mc.World, hs int) (string, error) {
	var tabs []*fmtspec.Table
	for _, n := range listNames(w) {
		ino := w.Lookup(n)
		if ino == nil {
			return "", fmt.Errorf("listed table %s missing", n)
		}
		t, err := fmtspec.Decode(ino.Data)
		if err != nil {
			return "", err
		}
		tabs = append(tabs, t)
	}
	return refdb.Overlay(tabs).DropTombstones().CanonString(hs), nil
}

func short(s string) string {
	f := strings.Fields(s)
	for i, w := range f {
		if strings.Contains(w, "0x") || strings.Contains(w, "/") {
			f[i] = "_"
		}
	}
	if len(f) > 8 {
		f = f[:8]
	}
	return strings.Join(f, "_")
}

func replay9(h *hist9, res *result, checkAll bool) (*live9, bool) {
	w := mc.NewWorld(stk.Dir)
	rt.E = w
	w.Atomic = true
	l := &live9{w: w, model: refdb.New(), failed: make([]bool, len(h.Handles))}
	ok := true
	for i, kind := range h.Handles {
		i, kind := i, kind
		err := w.As(i, func() error {
			st, err := reftable.NewStack(stk.Dir, cfgOf(kind))
			if err != nil {
				return err
			}
			st.VerifSetAutoCompact(kind == "auto")
			l.hs = append(l.hs, st)
			return nil
		})
		if err != nil {
			res.violate("history:open-fails", fmt.Sprintf("NewStack: %v", err), h)
			return nil, false
		}
	}
	for i, o := range h.Ops {
		o := o
		applicable := true
		w.As(o.H, func() error {
			applicable = l.apply(o, h, res, checkAll || i == len(h.Ops)-1)
			return nil
		})
		if !applicable {
			ok = false
			break
		}
	}
	return l, ok
}

func key9(l *live9) string {
	var sb strings.Builder
	sb.WriteString(dirHash(l.w))
	for i, st := range l.hs {
		fmt.Fprintf(&sb, "|h%d:%s:%v", i, strings.Join(st.VerifNames(), ","), l.failed[i])
	}
	if l.held != nil {
		fmt.Fprintf(&sb, "|held by %d", l.heldBy)
	}
	return sb.String()
}

func runC09(tier string, wi, wn int, res *result) {
	quick := tier != "thorough"
	type fam struct {
		handles []string
		depth   int
	}
	fams := []fam{{[]string{"noauto", "auto"}, 7}, {[]string{"noauto", "auto", "noauto"}, 5}, {[]string{"noauto", "s256"}, 5}}
	if !quick {
		fams = []fam{{[]string{"noauto", "auto"}, 9}, {[]string{"noauto", "auto", "noauto"}, 7}, {[]string{"noauto", "s256"}, 7}, {[]string{"s256", "noauto", "auto"}, 6}}
	}
	unit := 0
	for _, f := range fams {
		seen := map[string]int{}
		var rec func(h *hist9)
		rec = func(h *hist9) {
			if len(h.Ops) >= f.depth {
				return
			}
			for hi := range f.handles {
				for _, k := range []string{"add", "retry", "compactall", "expire", "newaddition", "clean", "hold", "release"} {
					child := &hist9{Handles: f.handles, Ops: append(append([]op9{}, h.Ops...), op9{hi, k})}
					if len(child.Ops) == 2 {
						unit++
						if (unit-1)%wn != wi {
							continue
						}
					}
					l, ok := replay9(child, res, false)
					rt.E = nil
					if l == nil || !ok {
						continue
					}
					res.Transitions++
					if len(child.Ops) >= 2 || wi == 0 {
						res.Histories++
					}
					if l.staleTry {
						res.Nontrivial++
					}
					if len(child.Ops) > res.MaxDepth {
						res.MaxDepth = len(child.Ops)
					}
					key := key9(l)
					rem := f.depth - len(child.Ops)
					if old, s := seen[key]; s && old >= rem {
						continue
					}
					if _, s := seen[key]; !s {
						res.States++
					}
					seen[key] = rem
					if res.Histories%3000 == 1 && len(res.Samples) < 3 {
						res.Samples = append(res.Samples, fmt.Sprintf("handles=%v ops=%v", child.Handles, child.Ops))
					}
					rec(child)
				}
			}
		}
		rec(&hist9{Handles: f.handles})
	}
}

func replayC09(raw json.RawMessage, res *result) error {
	var h hist9
	if err := json.Unmarshal(raw, &h); err != nil {
		return err
	}
	replay9(&h, res, true)
	rt.E = nil
	return nil
}
