// Command seqbfs is the sequential-history engine (DESIGN.md 5.3): explicit-state
// search over operation sequences on real Stack handles over the in-memory
// directory in atomic mode, compared step by step with the reference model.
// It decides C07 (compaction is invisible), C09 (stale handles), C12 (name
// conflicts) and C13 (reflog expiry).
package main

import (
	"encoding/json"
	"flag"
	"fmt"
	"os"
	"os/exec"
	"sort"
	"strings"
	"sync"

	"verif/internal/report"
)

type viol struct {
	Sig     string      `json:"sig"`
	Msg     string      `json:"msg"`
	History interface{} `json:"history"`
	N       int         `json:"n"`
}

type result struct {
	States      int              `json:"states"`
	Transitions int              `json:"transitions"`
	Histories   int              `json:"histories"`
	Nontrivial  int              `json:"nontrivial"`
	MaxDepth    int              `json:"max_depth"`
	Viol        map[string]*viol `json:"viol"`
	Samples     []string         `json:"samples"`
	Extra       map[string]int   `json:"extra"`
	Err         string           `json:"err,omitempty"`
	Tables      int              `json:"tables_validated"`
}

func newResult() *result {
	return &result{Viol: map[string]*viol{}, Extra: map[string]int{}}
}

func (r *result) violate(sig, msg string, hist interface{}) {
	if v, ok := r.Viol[sig]; ok {
		v.N++
		return
	}
	r.Viol[sig] = &viol{Sig: sig, Msg: msg, History: hist, N: 1}
}

func main() {
	prop := flag.String("property", "", "C07 C09 C12 C13")
	tier := flag.String("tier", "quick", "")
	worker := flag.String("worker", "", "internal: i/n")
	replay := flag.String("replay", "", "")
	bindRep := flag.String("bindreport", "", "")
	flag.Parse()
	if *replay != "" {
		os.Exit(doReplay(*prop, *replay))
	}
	if *worker != "" {
		var i, n int
		fmt.Sscanf(*worker, "%d/%d", &i, &n)
		res := newResult()
		func() {
			defer func() {
				if r := recover(); r != nil {
					res.Err = fmt.Sprintf("worker panic: %v", r)
				}
			}()
			switch *prop {
			case "C07", "C14":
				runC07(*prop, *tier, i, n, res)
			case "C09":
				runC09(*tier, i, n, res)
			case "C12":
				runC12(*tier, i, n, res)
			case "C13":
				runC13(*tier, i, n, res)
			}
		}()
		js, _ := json.Marshal(res)
		fmt.Println("WORKERRESULT " + string(js))
		return
	}
	run := report.NewRun(*prop, *tier, "model_checking")
	self, _ := os.Executable()
	const N = 16
	results := make([]*result, N)
	var wg sync.WaitGroup
	for i := 0; i < N; i++ {
		wg.Add(1)
		go func(i int) {
			defer wg.Done()
			cmd := exec.Command(self, "--property", *prop, "--tier", *tier, "--worker", fmt.Sprintf("%d/%d", i, N))
			cmd.Env = append(os.Environ(), "GOMAXPROCS=1")
			out, err := cmd.CombinedOutput()
			r := newResult()
			ok := false
			for _, l := range strings.Split(string(out), "\n") {
				if strings.HasPrefix(l, "WORKERRESULT ") {
					ok = json.Unmarshal([]byte(l[len("WORKERRESULT "):]), r) == nil
				}
			}
			if !ok {
				tail := string(out)
				if len(tail) > 3000 {
					tail = tail[len(tail)-3000:]
				}
				r.Err = fmt.Sprintf("worker %d died: %v\n%s", i, err, tail)
			}
			results[i] = r
		}(i)
	}
	wg.Wait()
	total := newResult()
	for _, r := range results {
		if r.Err != "" {
			fmt.Println("HARNESS-ERROR", r.Err)
			os.Exit(2)
		}
		total.States += r.States
		total.Transitions += r.Transitions
		total.Histories += r.Histories
		total.Nontrivial += r.Nontrivial
		total.Tables += r.Tables
		if r.MaxDepth > total.MaxDepth {
			total.MaxDepth = r.MaxDepth
		}
		for k, v := range r.Extra {
			total.Extra[k] += v
		}
		if len(total.Samples) < 6 {
			total.Samples = append(total.Samples, r.Samples...)
		}
		for k, v := range r.Viol {
			if o, ok := total.Viol[k]; ok {
				o.N += v.N
			} else {
				total.Viol[k] = v
			}
		}
	}
	var sigs []string
	for k := range total.Viol {
		sigs = append(sigs, k)
	}
	sort.Strings(sigs)
	for _, k := range sigs {
		v := total.Viol[k]
		run.Violations = append(run.Violations, report.V{Property: *prop, Signature: v.Sig, Msg: v.Msg, Count: v.N,
			Replay: map[string]interface{}{"harness": "seqbfs", "history": v.History, "message": v.Msg}})
	}
	cov := run.Coverage
	cov["states"] = total.States
	cov["transitions"] = total.Transitions
	cov["traces_validated_against_impl"] = total.Histories
	cov["evaluations"] = total.Histories
	cov["distinct_nontrivial"] = total.Nontrivial
	cov["max_depth"] = total.MaxDepth
	cov["rule"] = ruleText(*prop)
	var ss []interface{}
	for _, s := range total.Samples {
		ss = append(ss, s)
	}
	if len(ss) > 8 {
		ss = ss[:8]
	}
	cov["samples"] = ss
	cov["exhaustive"] = true
	for k, v := range total.Extra {
		cov[k] = v
	}
	if total.Tables > 0 {
		cov["programs"] = total.Tables
		cov["disagreements_checked"] = total.Tables
	}
	if *bindRep != "" {
		if b, err := os.ReadFile(*bindRep); err == nil {
			var br interface{}
			json.Unmarshal(b, &br)
			cov["binding"] = br
		}
	}
	run.Assumptions = []string{
		"sequential histories: one call runs to completion before the next starts (interleavings are C04/C05/C10's business)",
		"POSIX directory model of DESIGN.md 4.1; reference model model/refdb; independent decoder model/fmtspec",
	}
	os.Exit(run.Finish())
}

func ruleText(prop string) string {
	switch prop {
	case "C07":
		return "every history over the alphabet {set/delete/symref/peeled-tag on two refs, append log, delete newest log} interleaved with compaction of every contiguous range, CompactAll and auto-compacting Adds, up to the stated depth and number of compactions, for each write configuration, is executed on a real Stack (replayed from scratch for every node); after every transaction the full scan through Stack.Merged() must equal the reference map and after every compaction it must be unchanged; every table file written is validated by the independent decoder. A state is the sequence of table contents; non-trivial = the history contains a compaction over >=2 tables one of which holds a tombstone or a log entry"
	case "C09":
		return "every history of calls {Add, NewAddition+Close, CompactAll, Clean, auto-compacting Add, retry of the last failed Add} by 2-3 handles on one directory up to the stated depth; staleness is decided by the reference notion (handle's table names != tables.list). Non-trivial = a write was attempted through a stale handle"
	case "C12":
		return "breadth-first search over reachable (live set, tombstone set) states; in every state every transaction of <=2 records (add or delete) over 7 valid names (one of them, a-, sorts between a and a/b) and 5 invalid names is submitted through Add and through every two-table split of an Addition (stopping at, or going on after, a refused table), every three-record transaction (quick: over 5 names; thorough: over all 7) through Add and as three one-record tables of one Addition that goes on after a refused table (4 orders), plus CompactAll; the quick tier expands states with at most one tombstone (transitions into the others are executed and checked), the thorough tier all states; accept/reject must equal the reference rule and the live set must stay conflict-free. Non-trivial = the transaction touches a name with a prefix relation to a live or added name"
	case "C13":
		return "every stack of <=3 tables with reflog entries of 2 refs at times/update indices from a grid (several per ref, across tables, with log tombstones) x every expiry configuration whose three limits range over {unset, below, equal to each data value, between, above}: CompactAll(cfg) on the real Stack must leave exactly the entries the reference rule keeps, byte-identical, and the refs untouched. Non-trivial = at least one entry is dropped and at least one is kept"
	}
	return ""
}

func doReplay(prop, path string) int {
	b, err := os.ReadFile(path)
	if err != nil {
		fmt.Println("HARNESS-ERROR", err)
		return 2
	}
	var v struct {
		Property  string `json:"property"`
		Signature string `json:"signature"`
		Replay    struct {
			History json.RawMessage `json:"history"`
		} `json:"replay"`
	}
	if err := json.Unmarshal(b, &v); err != nil {
		fmt.Println("HARNESS-ERROR", err)
		return 2
	}
	if prop == "" {
		prop = v.Property
	}
	res := newResult()
	var rerr error
	switch prop {
	case "C07", "C14":
		rerr = replayC07(prop, v.Replay.History, res)
	case "C09":
		rerr = replayC09(v.Replay.History, res)
	case "C12":
		rerr = replayC12(v.Replay.History, res)
	case "C13":
		rerr = replayC13(v.Replay.History, res)
	}
	if rerr != nil {
		fmt.Println("HARNESS-ERROR", rerr)
		return 2
	}
	for k, x := range res.Viol {
		fmt.Printf("violation %s\n%s\n", k, x.Msg)
	}
	if len(res.Viol) > 0 {
		fmt.Printf("VIOLATION property=%s replay=%s\n", prop, path)
		return 1
	}
	fmt.Println("the recorded violation did not recur")
	return 0
}
