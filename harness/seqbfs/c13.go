package main

import (
	"encoding/json"
	"fmt"
	"strings"

	"github.com/google/reftable"
	"github.com/google/reftable/zz_verif/rt"

	"verif/engine/mc"
	"verif/internal/hx"
	"verif/internal/stk"
	"verif/model/refdb"
)

// ---------------------------------------------------------------- C13: reflog expiry

// A table of a C13 stack: per ref (a, b) one of: 0 nothing, 1 entry at time A, 2 entry at time B,
// 3 tombstone for the ref's entry in the previous table, 4 entry at an update index above the table's limits.
type case13 struct {
	Tables [][2]int
	Expiry [3]uint64 // Time, MaxUpdateIndex, MinUpdateIndex
	SHA256 bool
	Exact  bool // ExactLogMessage: messages (multi-line, no trailing newline) must survive the expiry rewrite verbatim
}

func times13(t int) (uint64, uint64) { return uint64(10 * t), uint64(45 - 10*t) }

func build13(c *case13) (txns []hx.Txn) {
	sfx := ""
	if c.Exact {
		sfx = "\n second line"
	}
	for ti, tab := range c.Tables {
		t := ti + 1
		x := hx.Txn{ID: fmt.Sprintf("t%d", t)}
		if ti == 0 {
			x.Refs = []hx.RefOp{{Name: "a", Kind: 1, Val: "va"}, {Name: "b", Kind: 3, Val: "a"}}
		}
		for ri, name := range []string{"a", "b"} {
			ta, tb := times13(t)
			switch tab[ri] {
			case 1:
				x.Logs = append(x.Logs, hx.LogOp{Name: name, Msg: fmt.Sprintf("%s@%d", name, t) + sfx, Time: ta, Old: "o", New: fmt.Sprintf("n%d", t)})
			case 2:
				x.Logs = append(x.Logs, hx.LogOp{Name: name, Msg: fmt.Sprintf("%s@%d", name, t) + sfx, Time: tb, Old: "o", New: fmt.Sprintf("n%d", t)})
			case 3:
				x.Logs = append(x.Logs, hx.LogOp{Name: name, Deletion: true, UI: uint64(t - 1)})
			case 4:
				// an entry whose update index lies outside its table's own limits (the writer does not tie log indices to the limits)
				x.Logs = append(x.Logs, hx.LogOp{Name: name, UI: uint64(t + 3), Msg: fmt.Sprintf("%s@%d+3", name, t) + sfx, Time: ta, Old: "o", New: fmt.Sprintf("m%d", t)})
			}
		}
		txns = append(txns, x)
	}
	return
}

func run13(c *case13, res *result) {
	cfg := reftable.Config{}
	hs := 20
	if c.SHA256 {
		cfg.HashID = reftable.SHA256ID
		hs = 32
	}
	cfg.ExactLogMessage = c.Exact
	w := mc.NewWorld(stk.Dir)
	rt.E = w
	defer func() { rt.E = nil }()
	w.Atomic = true
	model := refdb.New()
	viol := func(sig, msg string) {
		res.violate(sig, fmt.Sprintf("stack %v (per table, per ref a/b: 0 none, 1/2 entry, 3 tombstone of the previous entry) sha256=%v exact-messages=%v expiry{Time:%d Max:%d Min:%d}: %s", c.Tables, c.SHA256, c.Exact, c.Expiry[0], c.Expiry[1], c.Expiry[2], msg), c)
	}
	w.As(0, func() error {
		st, err := reftable.NewStack(stk.Dir, cfg)
		if err != nil {
			viol("expiry:open-fails", err.Error())
			return nil
		}
		st.VerifSetAutoCompact(false)
		for ti, x := range build13(c) {
			ui := uint64(ti + 1)
			x := x
			if x.Empty() {
				continue
			}
			if err := st.Add(func(wr *reftable.Writer) error { return x.Write(wr, ui, hs) }); err != nil {
				viol("expiry:setup-add-fails", err.Error())
				return nil
			}
			refs, logs := x.Records(ui, hs, c.Exact)
			for _, r := range refs {
				model.PutRef(r)
			}
			for _, l := range logs {
				model.PutLog(l)
			}
		}
		live := model.DropTombstones()
		want := live.Expire(c.Expiry[0], c.Expiry[1], c.Expiry[2])
		dropped := len(live.Logs) - len(want.Logs)
		if dropped > 0 && len(want.Logs) > 0 {
			res.Nontrivial++
		}
		exp := &reftable.LogExpirationConfig{Time: c.Expiry[0], MaxUpdateIndex: c.Expiry[1], MinUpdateIndex: c.Expiry[2]}
		if err := guard(func() error { return st.CompactAll(exp) }); err != nil {
			viol("expiry:compactall-fails:"+short(err.Error()), err.Error())
			return nil
		}
		refs, logs, err := hx.ReadAll(st.Merged(), hs)
		if err != nil {
			viol("expiry:read-fails:"+short(err.Error()), err.Error())
			return nil
		}
		wr, wl := want.Canon(hs)
		if strings.Join(refs, "\n") != strings.Join(wr, "\n") {
			viol("expiry:refs-altered", fmt.Sprintf("refs after expiry:\n%s\n--- want\n%s", strings.Join(refs, "\n"), strings.Join(wr, "\n")))
		}
		if strings.Join(logs, "\n") != strings.Join(wl, "\n") {
			kind := "entries-differ"
			if len(logs) < len(wl) {
				kind = "live-entry-removed"
			} else if len(logs) > len(wl) {
				kind = "expired-entry-kept"
			}
			viol("expiry:"+kind, fmt.Sprintf("log entries after expiry:\n%s\n--- want\n%s", strings.Join(logs, "\n"), strings.Join(wl, "\n")))
		}
		// a fresh handle sees the same
		st.Close()
		st2, err := reftable.NewStack(stk.Dir, cfg)
		if err != nil {
			viol("expiry:reopen-fails", err.Error())
			return nil
		}
		r2, l2, err := hx.ReadAll(st2.Merged(), hs)
		if err != nil || hx.Joined(r2, l2) != hx.Joined(wr, wl) {
			viol("expiry:fresh-handle-differs", fmt.Sprintf("a handle opened after the expiry sees (err=%v)\n%s", err, hx.Joined(r2, l2)))
		}
		return nil
	})
}

func runC13(tier string, wi, wn int, res *result) {
	quick := tier != "thorough"
	bOpts := []int{0, 1}
	if !quick {
		bOpts = []int{0, 1, 2, 3, 4}
	}
	var stacks [][][2]int
	var rec func(cur [][2]int)
	rec = func(cur [][2]int) {
		if len(cur) > 0 {
			stacks = append(stacks, append([][2]int{}, cur...))
		}
		if len(cur) == 3 {
			return
		}
		for a := 0; a <= 4; a++ {
			for _, b := range bOpts {
				if len(cur) == 0 && (a == 3 || b == 3) {
					continue // nothing to tombstone below the first table
				}
				if a == 3 && (cur[len(cur)-1][0] == 0 || cur[len(cur)-1][0] >= 3) {
					continue // tombstone only for an existing entry
				}
				if b == 3 && (cur[len(cur)-1][1] == 0 || cur[len(cur)-1][1] >= 3) {
					continue
				}
				if len(cur) > 0 && a == 0 && b == 0 {
					continue // empty table
				}
				rec(append(append([][2]int{}, cur...), [2]int{a, b}))
			}
		}
	}
	rec(nil)
	stacks = append(stacks, [][2]int{}) // the empty stack: expiry must be a no-op, not a failure
	timesL := []uint64{0, 5, 10, 15, 20, 25, 30, 35, 40}
	idxL := []uint64{0, 1, 2, 3, 4, 7}
	// variants: (sha256, exact messages). quick: sha1 on every stack, exact messages on stacks of at most two tables
	type variant struct{ sha, exact bool }
	variants := []variant{{false, false}, {false, true}}
	if !quick {
		variants = []variant{{false, false}, {true, false}, {false, true}}
	}
	unit := 0
	for _, vr := range variants {
		for _, s := range stacks {
			if quick && vr.exact && len(s) > 2 {
				continue
			}
			unit++
			if (unit-1)%wn != wi {
				continue
			}
			res.States++
			for _, tm := range timesL {
				for _, mx := range idxL {
					for _, mn := range idxL {
						c := &case13{Tables: s, Expiry: [3]uint64{tm, mx, mn}, SHA256: vr.sha, Exact: vr.exact}
						res.Transitions++
						res.Histories++
						run13(c, res)
						if res.Histories%40000 == 1 && len(res.Samples) < 3 {
							js, _ := json.Marshal(c)
							res.Samples = append(res.Samples, string(js))
						}
					}
				}
			}
		}
	}
	res.MaxDepth = 4
}

func replayC13(raw json.RawMessage, res *result) error {
	var c case13
	if err := json.Unmarshal(raw, &c); err != nil {
		return err
	}
	run13(&c, res)
	return nil
}
