package main

import (
	"encoding/json"
	"fmt"
	"sort"
	"strings"

	"github.com/google/reftable"
	"github.com/google/reftable/zz_verif/rt"

	"verif/engine/mc"
	"verif/internal/hx"
	"verif/internal/stk"
	"verif/model/refdb"
)

// ---------------------------------------------------------------- C12: name conflicts

// "a-" sorts between "a" and its children "a/…" ('-' < '/'): a neighbour-only comparison of sorted additions
// misses the conflict between a and a/b when a- lies between them
var validNames = []string{"a", "a-", "a/b", "a/b/c", "a/c", "ab", "b"}

// sub-alphabet of the three-record transactions of the quick tier
var coreNames = []string{"a", "a-", "a/b", "a/c", "b"}
var invalidNames = []string{"a/", "a//b", "./a", "a/..", ".."}

type rec12 struct {
	Name string
	Del  bool
}

func (r rec12) String() string {
	if r.Del {
		return "-" + r.Name
	}
	return "+" + r.Name
}

// step12 is one submitted transaction: Form "add" (one table), "split" (two-table Addition,
// records in the given order), or "compactall".
type step12 struct {
	Form string
	Recs []rec12 `json:",omitempty"`
}

func (s step12) String() string { return fmt.Sprintf("%s%v", s.Form, s.Recs) }

type hist12 struct {
	Steps []step12
}

func allTxns(threeRecords bool) [][]rec12 {
	names := append(append([]string{}, validNames...), invalidNames...)
	var out [][]rec12
	for _, n := range names {
		out = append(out, []rec12{{n, false}}, []rec12{{n, true}})
	}
	for i := 0; i < len(names); i++ {
		for j := i + 1; j < len(names); j++ {
			for _, d1 := range []bool{false, true} {
				for _, d2 := range []bool{false, true} {
					out = append(out, []rec12{{names[i], d1}, {names[j], d2}})
				}
			}
		}
	}
	{
		v := coreNames
		if threeRecords {
			v = validNames
		}
		for i := 0; i < len(v); i++ {
			for j := i + 1; j < len(v); j++ {
				for k := j + 1; k < len(v); k++ {
					for m := 0; m < 8; m++ {
						out = append(out, []rec12{{v[i], m&1 != 0}, {v[j], m&2 != 0}, {v[k], m&4 != 0}})
					}
				}
			}
		}
	}
	return out
}

type state12 struct {
	live  map[string]bool
	tombs map[string]bool
}

func (s state12) key() string {
	var l, t []string
	for n := range s.live {
		l = append(l, n)
	}
	for n := range s.tombs {
		t = append(t, n)
	}
	sort.Strings(l)
	sort.Strings(t)
	return strings.Join(l, ",") + "|" + strings.Join(t, ",")
}

// modelApply returns whether the reference rule accepts recs in state s, and the successor.
func modelApply(s state12, recs []rec12) (bool, state12) {
	n := state12{live: map[string]bool{}, tombs: map[string]bool{}}
	for k := range s.live {
		n.live[k] = true
	}
	for k := range s.tombs {
		n.tombs[k] = true
	}
	for _, r := range recs {
		if r.Del {
			delete(n.live, r.Name)
			// tombstones of malformed names are invisible to every lookup the validation makes;
			// the state abstraction tracks tombstones of well-formed names only
			if refdb.ValidName(r.Name) {
				n.tombs[r.Name] = true
			}
		}
	}
	for _, r := range recs {
		if !r.Del {
			if !refdb.ValidName(r.Name) {
				return false, s
			}
			n.live[r.Name] = true
			delete(n.tombs, r.Name)
		}
	}
	if !refdb.ConflictFree(n.live) {
		return false, s
	}
	return true, n
}

func writeRecs(wr *reftable.Writer, recs []rec12, ui uint64) error {
	rs := append([]rec12{}, recs...)
	sort.Slice(rs, func(i, j int) bool { return rs[i].Name < rs[j].Name })
	wr.SetLimits(ui, ui)
	for _, r := range rs {
		rec := reftable.RefRecord{RefName: r.Name, UpdateIndex: ui}
		if !r.Del {
			rec.Value = hx.Hash("v"+r.Name, 20)
		}
		if err := wr.AddRef(&rec); err != nil {
			return err
		}
	}
	return nil
}

// submit runs one step on the real stack; returns accepted and a lock/other failure description.
func submit(st *reftable.Stack, s step12) (accepted bool, err error) {
	switch s.Form {
	case "compactall":
		return true, st.CompactAll(nil)
	case "add":
		e := st.Add(func(wr *reftable.Writer) error { return writeRecs(wr, s.Recs, st.NextUpdateIndex()) })
		return e == nil, e
	case "splitc":
		// a caller that goes on after a refused table and commits what was accepted
		tr, e := st.NewAddition()
		if e != nil {
			return false, e
		}
		defer tr.Close()
		ui := st.NextUpdateIndex()
		n := 0
		for _, r := range s.Recs {
			u := ui + uint64(n)
			if e := tr.Add(func(wr *reftable.Writer) error { return writeRecs(wr, []rec12{r}, u) }); e == nil {
				n++
			}
		}
		e = tr.Commit()
		return e == nil, e
	case "split":
		tr, e := st.NewAddition()
		if e != nil {
			return false, e
		}
		defer tr.Close()
		ui := st.NextUpdateIndex()
		for i, r := range s.Recs {
			u := ui + uint64(i)
			if e := tr.Add(func(wr *reftable.Writer) error { return writeRecs(wr, []rec12{r}, u) }); e != nil {
				return false, e
			}
		}
		e = tr.Commit()
		return e == nil, e
	}
	return false, fmt.Errorf("unknown form")
}

func liveNames(st *reftable.Stack) (map[string]bool, error) {
	refs, err := hx.ScanRefs(st.Merged(), "")
	if err != nil {
		return nil, err
	}
	m := map[string]bool{}
	for _, r := range refs {
		// canonical text: ref "name" @…
		q := strings.SplitN(r, "\"", 3)
		var name string
		fmt.Sscanf("\""+q[1]+"\"", "%q", &name)
		m[name] = true
	}
	return m, nil
}

// run12 replays a history; the last step is checked against the model.
func run12(h *hist12, res *result, checkAll bool) (final state12, ok bool) {
	w := mc.NewWorld(stk.Dir)
	rt.E = w
	defer func() { rt.E = nil }()
	w.Atomic = true
	s := state12{live: map[string]bool{}, tombs: map[string]bool{}}
	ok = true
	w.As(0, func() error {
		st, err := reftable.NewStack(stk.Dir, reftable.Config{})
		if err != nil {
			res.violate("history:open-fails", err.Error(), h)
			ok = false
			return nil
		}
		st.VerifSetAutoCompact(false)
		for i, step := range h.Steps {
			check := checkAll || i == len(h.Steps)-1
			viol := func(sig, msg string) {
				if check {
					res.violate(sig, fmt.Sprintf("history %v: %s", h.Steps, msg), h)
				}
			}
			var accepted bool
			var serr error
			perr := guard(func() error { accepted, serr = submit(st, step); return nil })
			if perr != nil {
				viol("names:panic@"+step.Form, perr.Error())
				ok = false
				return nil
			}
			if step.Form == "compactall" {
				if serr != nil {
					viol("names:compactall-fails", serr.Error())
					ok = false
					return nil
				}
				s.tombs = map[string]bool{}
			} else if step.Form == "splitc" {
				// every table is a step of its own: refused tables are skipped, the rest is committed
				if serr != nil {
					viol("names:commit-after-refused-table-fails", fmt.Sprintf("%s: Commit failed: %v", step, serr))
					ok = false
					return nil
				}
				for _, r := range step.Recs {
					if ok1, nxt := modelApply(s, []rec12{r}); ok1 {
						s = nxt
					}
				}
			} else {
				want, next := modelApply(s, step.Recs)
				if serr == reftable.ErrLockFailure {
					viol("names:lock-failure-in-a-sequential-history@"+step.Form, fmt.Sprintf("%s failed with ErrLockFailure", step))
					ok = false
					return nil
				}
				// for two-table Additions: would the tables be acceptable one after the other?
				cls := ""
				if step.Form == "split" {
					seq := true
					cur := s
					for _, r := range step.Recs {
						ok1, nxt := modelApply(cur, []rec12{r})
						if !ok1 {
							seq = false
							break
						}
						cur = nxt
					}
					switch {
					case want && !seq:
						// legal as a whole, but an earlier table is only legal because of a later one
						cls = ":table-depends-on-later-table-of-same-addition"
					case !want && seq:
						cls = ":impossible" // sequentially legal implies legal as a whole
					default:
						cls = ":other"
					}
				}
				switch {
				case accepted && !want:
					viol("names:illegal-transaction-accepted@"+step.Form+cls, fmt.Sprintf("in state live=%v the transaction %s was committed although it creates a conflicting or malformed name", keys(s.live), step))
					ok = false
					return nil
				case !accepted && want:
					viol("names:legal-transaction-refused@"+step.Form+cls, fmt.Sprintf("in state live=%v the legal transaction %s was refused: %v", keys(s.live), step, serr))
					ok = false
					return nil
				}
				if accepted {
					s = next
				}
			}
			got, err := liveNames(st)
			if err != nil {
				viol("names:scan-fails", err.Error())
				ok = false
				return nil
			}
			if strings.Join(keys(got), ",") != strings.Join(keys(s.live), ",") {
				viol("names:live-set-differs@"+step.Form, fmt.Sprintf("after %s the live refs are %v, the model has %v", step, keys(got), keys(s.live)))
				ok = false
				return nil
			}
			if !refdb.ConflictFree(got) {
				viol("names:live-set-conflicts", fmt.Sprintf("after %s the live refs %v contain a ref that is a directory of another", step, keys(got)))
			}
		}
		return nil
	})
	return s, ok
}

func keys(m map[string]bool) []string {
	var out []string
	for k := range m {
		out = append(out, k)
	}
	sort.Strings(out)
	return out
}

func runC12(tier string, wi, wn int, res *result) {
	txns := allTxns(tier == "thorough")
	// BFS over (live, tombstones) states; every worker runs the same BFS over states (cheap, model
	// only) and executes the transitions whose index falls to it.
	type node struct {
		s    state12
		hist []step12
	}
	start := state12{live: map[string]bool{}, tombs: map[string]bool{}}
	seen := map[string]bool{start.key(): true}
	queue := []node{{start, nil}}
	unit := 0
	for len(queue) > 0 {
		n := queue[0]
		queue = queue[1:]
		res.States++
		var steps []step12
		steps = append(steps, step12{Form: "compactall"})
		for _, t := range txns {
			steps = append(steps, step12{Form: "add", Recs: t})
			if len(t) == 2 {
				steps = append(steps, step12{Form: "split", Recs: t}, step12{Form: "split", Recs: []rec12{t[1], t[0]}})
				steps = append(steps, step12{Form: "splitc", Recs: t}, step12{Form: "splitc", Recs: []rec12{t[1], t[0]}})
			}
			if len(t) == 3 {
				// three one-record tables in one Addition, going on after a refused table: a table refused in the
				// middle must not spoil the tables before or after it (every rotation puts each record in each place)
				steps = append(steps, step12{Form: "splitc", Recs: t}, step12{Form: "splitc", Recs: []rec12{t[1], t[2], t[0]}}, step12{Form: "splitc", Recs: []rec12{t[2], t[0], t[1]}},
					step12{Form: "splitc", Recs: []rec12{t[2], t[1], t[0]}})
			}
		}
		for _, st := range steps {
			// successor by the model (the real code is compared against it)
			var next state12
			if st.Form == "compactall" {
				next = state12{live: n.s.live, tombs: map[string]bool{}}
			} else if st.Form == "splitc" {
				next = n.s
				for _, r := range st.Recs {
					if ok1, nxt := modelApply(next, []rec12{r}); ok1 {
						next = nxt
					}
				}
			} else {
				_, next = modelApply(n.s, st.Recs)
			}
			hst := append(append([]step12{}, n.hist...), st)
			// quick tier: states with more than one tombstone are reached (the transition into them is executed
			// and checked) but not expanded further
			if k := next.key(); !seen[k] && (tier == "thorough" || len(next.tombs) <= 1) {
				seen[k] = true
				queue = append(queue, node{next, hst})
			}
			unit++
			if (unit-1)%wn != wi {
				continue
			}
			res.Transitions++
			res.Histories++
			nontriv := false
			for _, r := range st.Recs {
				for l := range n.s.live {
					if strings.HasPrefix(l, r.Name+"/") || strings.HasPrefix(r.Name, l+"/") {
						nontriv = true
					}
				}
				for _, r2 := range st.Recs {
					if r.Name != r2.Name && strings.HasPrefix(r2.Name, r.Name+"/") {
						nontriv = true
					}
				}
			}
			if nontriv {
				res.Nontrivial++
			}
			if len(hst) > res.MaxDepth {
				res.MaxDepth = len(hst)
			}
			run12(&hist12{Steps: hst}, res, false)
			if res.Histories%20000 == 1 && len(res.Samples) < 3 {
				res.Samples = append(res.Samples, fmt.Sprintf("state live=%v tombs=%v: %v", keys(n.s.live), keys(n.s.tombs), st))
			}
		}
	}
}

func replayC12(raw json.RawMessage, res *result) error {
	var h hist12
	if err := json.Unmarshal(raw, &h); err != nil {
		return err
	}
	run12(&h, res, true)
	return nil
}
