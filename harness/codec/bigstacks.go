package main

import (
	"fmt"
	"math"
	"sort"

	"github.com/google/reftable"

	"verif/internal/hx"
	"verif/model/refdb"
	"verif/model/tablegen"
)

func b2i(b bool) int {
	if b {
		return 1
	}
	return 0
}

// ---------------------------------------------------------------- stacks of MULTI-BLOCK tables (C03)
//
// The small-table stacks above put every table in one block. Here the tables have two or three blocks
// (sought linearly: no index) up to eight (indexed), so that a merged seek goes through each table's own
// seek machinery with the same key, and keys interleave across tables. A table is a shape from a fixed menu
// over the names k00..k23 (refs) or over 8 names x 2 update indices (logs); every stack of at most three
// shapes (quick: the ordered pairs and the triples whose bottom table has more than one block) is merged
// raw and with deletions suppressed, and sought at every key class.

type bigShape struct {
	name string
	// rec(i) for key index i: 0 absent, 1 value, 2 deletion
	rec func(i int) int
}

const bigN = 24

var bigShapes = []bigShape{
	{"all", func(i int) int { return 1 }},
	{"even", func(i int) int { return b2i(i%2 == 0) }},
	{"odd-del", func(i int) int { return 2 * b2i(i%2 == 1) }},
	{"first8", func(i int) int { return b2i(i < 8) }},
	{"last8-mixed", func(i int) int {
		if i < 16 {
			return 0
		}
		return 1 + i%2
	}},
	{"mid8-del", func(i int) int { return 2 * b2i(i >= 8 && i < 16) }},
	{"single", func(i int) int { return b2i(i == 12) }},
	{"sparse", func(i int) int { return b2i(i == 0 || i == 11 || i == 23) }},
	{"third", func(i int) int { return b2i(i%3 == 1) }},
}

func bigRefName(i int) string { return fmt.Sprintf("refs/k%02d", i) }

type bigBuilt struct {
	rd     *reftable.Reader
	refs   []refdb.Ref
	logs   []refdb.Log
	blocks int
}

func buildBig(kind string, sh bigShape, pos int, sha bool, bs uint32) *bigBuilt {
	hs := 20
	if sha {
		hs = 32
	}
	ui := uint64(pos + 1)
	c := &tablegen.Case{Family: "bigstack", Cfg: tablegen.Cfg{SHA256: sha, BlockSize: bs}, Min: ui, Max: ui}
	if kind == "refs" {
		for i := 0; i < bigN; i++ {
			switch sh.rec(i) {
			case 1:
				c.Refs = append(c.Refs, refdb.Ref{Name: bigRefName(i), UpdateIndex: ui, Kind: 1, Value: tablegen.Oid(fmt.Sprintf("v%d.%d", pos, i), hs)})
			case 2:
				c.Refs = append(c.Refs, refdb.Ref{Name: bigRefName(i), UpdateIndex: ui, Kind: 0})
			}
		}
	} else {
		// log keys: 12 names x update indices {2,1} (key order: name, then update index descending); as in the
		// small stacks the entries' update indices are independent of the table's limits (AddLog does not check)
		for i := 0; i < bigN; i++ {
			name, lu := bigRefName(i/2), uint64(2-i%2)
			switch sh.rec(i) {
			case 1:
				c.Logs = append(c.Logs, refdb.Log{Name: name, UpdateIndex: lu, Old: tablegen.Oid("o", hs), New: tablegen.Oid(fmt.Sprintf("n%d.%d", pos, i), hs), Who: "w", Email: "e", Time: uint64(100 + pos), TZ: 60, Message: fmt.Sprintf("table %d key %d %s\n", pos, i, tablegen.Keystream(fmt.Sprint(pos, i), 40))})
			case 2:
				c.Logs = append(c.Logs, refdb.Log{Name: name, UpdateIndex: lu, Deletion: true})
			}
		}
	}
	data, rej, perr := writeTable(c)
	if perr != "" || rej != "" {
		panic(fmt.Sprintf("big stack table %s@%d cannot be written: %s %s", sh.name, pos, rej, perr))
	}
	rd, err := reftable.NewReader(&reftable.ByteBlockSource{Source: data}, fmt.Sprintf("t%d", pos))
	if err != nil {
		panic(fmt.Sprintf("big stack table %s@%d cannot be opened: %v", sh.name, pos, err))
	}
	nb := (len(data) + int(bs) - 1) / int(bs)
	return &bigBuilt{rd: rd, refs: c.Refs, logs: c.Logs, blocks: nb}
}

type bigCase struct {
	Family string
	Kind   string
	SHA256 bool
	Shapes []string
	Key    string `json:",omitempty"`
}

func runBigStacks(tier string, wi, wn int, res *workerResult) {
	quick := tier != "thorough"
	shas := []bool{false}
	if !quick {
		shas = []bool{false, true}
	}
	unit := 0
	for _, sha := range shas {
		hs := 20
		if sha {
			hs = 32
		}
		for _, kind := range []string{"refs", "logs"} {
			bs := uint32(128)
			if kind == "logs" {
				bs = 256
			}
			cache := map[string]*bigBuilt{}
			get := func(si, pos int) *bigBuilt {
				k := fmt.Sprint(si, pos)
				if b, ok := cache[k]; ok {
					return b
				}
				b := buildBig(kind, bigShapes[si], pos, sha, bs)
				cache[k] = b
				return b
			}
			var stacks [][]int
			n := len(bigShapes)
			for a := 0; a < n; a++ {
				for b := 0; b < n; b++ {
					stacks = append(stacks, []int{a, b})
					for c := 0; c < n; c++ {
						if quick && !(get(a, 0).blocks > 1 && (c%2 == 0 || get(b, 1).blocks > 1)) {
							continue
						}
						stacks = append(stacks, []int{a, b, c})
					}
				}
			}
			// seek keys
			var refSeeks []string
			if kind == "refs" {
				var names []string
				for i := 0; i < bigN; i++ {
					names = append(names, bigRefName(i))
				}
				if quick {
					// every name, its successor and predecessor strings, the ends
					set := map[string]bool{"": true, "refs/k": true, "refs/k23~": true, "\xff\xff": true}
					for _, nm := range names {
						set[nm] = true
						set[nm+"\x01"] = true
					}
					for k := range set {
						refSeeks = append(refSeeks, k)
					}
					sort.Strings(refSeeks)
				} else {
					refSeeks = refKeyClasses(names)
				}
			}
			for _, stck := range stacks {
				unit++
				if (unit-1)%wn != wi {
					continue
				}
				res.Cases++
				var tabs []reftable.Table
				db := refdb.New()
				bc := &bigCase{Family: "bigstack", Kind: kind, SHA256: sha}
				multi := 0
				for pos, si := range stck {
					b := get(si, pos)
					tabs = append(tabs, b.rd)
					bc.Shapes = append(bc.Shapes, fmt.Sprintf("%s(%d blocks)", bigShapes[si].name, b.blocks))
					if b.blocks > 1 {
						multi++
					}
					for _, r := range b.refs {
						db.PutRef(r)
					}
					for _, l := range b.logs {
						db.PutLog(l)
					}
				}
				if multi >= 2 {
					res.Nontrivial++
				}
				if len(res.Samples) < 1 && multi >= 2 && len(stck) == 3 {
					res.Samples = append(res.Samples, fmt.Sprintf("%+v", *bc))
				}
				for _, suppress := range []bool{false, true} {
					view, model := "raw", db
					if suppress {
						view, model = "stack", db.DropTombstones()
					}
					var m *reftable.Merged
					if err := guard(func() error {
						var err error
						m, err = reftable.VerifNewMerged(tabs, hashID(sha), suppress)
						return err
					}); err != nil {
						res.violate("merged:open-fails:"+errClass(err.Error()), fmt.Sprintf("%+v: NewMerged: %v", *bc, err), bc)
						break
					}
					wantRefs, wantLogs := model.Canon(hs)
					if kind == "refs" {
						var names []string
						for _, r := range model.SortedRefs() {
							names = append(names, r.Name)
						}
						for _, k := range refSeeks {
							i := sort.SearchStrings(names, k)
							var got []string
							err := guard(func() error {
								var err error
								got, err = hx.ScanRefs(m, k)
								return err
							})
							res.Checks++
							c2 := *bc
							c2.Key = k
							if err != nil {
								res.violate("merged:"+view+"-ref-seek-fails:"+errClass(err.Error()), fmt.Sprintf("%s view of multi-block tables %v: SeekRef(%q): %v", view, bc.Shapes, k, err), c2)
								continue
							}
							if d := firstDiff(got, wantRefs[i:]); d != "" {
								res.violate("merged:"+view+"-refs-"+diffKind(got, wantRefs[i:]), fmt.Sprintf("%s view of multi-block tables %v (oldest first): SeekRef(%q) differs from the newest-wins overlay: %s", view, bc.Shapes, k, d), c2)
							}
						}
					} else {
						var keys []string
						for _, l := range model.SortedLogs() {
							keys = append(keys, logKey(l.Name, l.UpdateIndex))
						}
						var seeks []lkey
						seeks = append(seeks, lkey{"", math.MaxUint64}, lkey{"refs/k", 5}, lkey{"refs/k99", 1})
						for i := 0; i < bigN/2; i++ {
							for _, u := range []uint64{math.MaxUint64, 2, 1, 0} {
								seeks = append(seeks, lkey{bigRefName(i), u})
							}
						}
						for _, k := range seeks {
							key := logKey(k.name, k.ui)
							i := sort.SearchStrings(keys, key)
							var got []string
							err := guard(func() error {
								var err error
								got, err = hx.ScanLogs(m, k.name, k.ui, hs)
								return err
							})
							res.Checks++
							c2 := *bc
							c2.Key = fmt.Sprintf("%q@%d", k.name, k.ui)
							if err != nil {
								res.violate("merged:"+view+"-log-seek-fails:"+errClass(err.Error()), fmt.Sprintf("%s view of multi-block tables %v: SeekLog(%q,%d): %v", view, bc.Shapes, k.name, k.ui, err), c2)
								continue
							}
							if d := firstDiff(got, wantLogs[i:]); d != "" {
								res.violate("merged:"+view+"-logs-"+diffKind(got, wantLogs[i:]), fmt.Sprintf("%s view of multi-block tables %v (oldest first): SeekLog(%q,%d) differs from the newest-wins overlay: %s", view, bc.Shapes, k.name, k.ui, d), c2)
							}
						}
					}
				}
			}
		}
	}
}
