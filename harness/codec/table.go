package main

import (
	"bytes"
	"encoding/binary"
	"encoding/json"
	"fmt"
	"math"
	"regexp"
	"runtime"
	"sort"
	"strings"

	"github.com/google/reftable"

	"verif/internal/hist"
	"verif/internal/hx"
	"verif/model/fmtspec"
	"verif/model/refdb"
	"verif/model/tablegen"
)

func toConfig(c tablegen.Cfg) reftable.Config {
	cfg := reftable.Config{Unaligned: c.Unaligned, BlockSize: c.BlockSize, SkipIndexObjects: c.SkipObj, RestartInterval: c.Restart, ExactLogMessage: c.ExactMsg}
	if c.SHA256 {
		cfg.HashID = reftable.SHA256ID
	}
	return cfg
}

func toRefRecord(r refdb.Ref) reftable.RefRecord {
	return reftable.RefRecord{RefName: r.Name, UpdateIndex: r.UpdateIndex, Value: r.Value, TargetValue: r.Peeled, Target: r.Symref}
}

func toLogRecord(l refdb.Log) reftable.LogRecord {
	rec := reftable.LogRecord{RefName: l.Name, UpdateIndex: l.UpdateIndex}
	if !l.Deletion {
		rec.Old, rec.New, rec.Name, rec.Email, rec.Time, rec.TZOffset, rec.Message = l.Old, l.New, l.Who, l.Email, l.Time, l.TZ, l.Message
	}
	return rec
}

var numRe = regexp.MustCompile(`[0-9]+`)
var hexRe = regexp.MustCompile(`0x[0-9a-f]+`)
var quoteRe = regexp.MustCompile(`"(?:[^"\\]|\\.)*"`)

// errClass strips the variable parts of an error message.
func errClass(s string) string {
	s = quoteRe.ReplaceAllString(s, "Q")
	s = hexRe.ReplaceAllString(s, "H")
	s = numRe.ReplaceAllString(s, "N")
	s = strings.ReplaceAll(s, " ", "_")
	if len(s) > 80 {
		s = s[:80]
	}
	return s
}

// panicSite returns the innermost reftable function on the stack of a recovered panic.
func panicSite() string {
	pcs := make([]uintptr, 64)
	n := runtime.Callers(3, pcs)
	fr := runtime.CallersFrames(pcs[:n])
	for {
		f, more := fr.Next()
		if strings.Contains(f.Function, "github.com/google/reftable.") && !strings.Contains(f.Function, "zz_verif") {
			return f.Function[strings.LastIndex(f.Function, "/")+1+len("reftable."):]
		}
		if !more {
			break
		}
	}
	return "?"
}

// writeTable runs the real writer. rejected: the writer refused the input with an error.
func writeTable(c *tablegen.Case) (out []byte, rejected string, perr string) {
	defer func() {
		if r := recover(); r != nil {
			perr = fmt.Sprintf("panic@%s: %v", panicSite(), r)
		}
	}()
	cfg := toConfig(c.Cfg)
	var buf bytes.Buffer
	w, err := reftable.NewWriter(&buf, &cfg)
	if err != nil {
		return nil, "NewWriter: " + err.Error(), ""
	}
	w.SetLimits(c.Min, c.Max)
	for _, r := range c.Refs {
		rec := toRefRecord(r)
		if err := w.AddRef(&rec); err != nil {
			return nil, err.Error(), ""
		}
	}
	for _, l := range c.Logs {
		rec := toLogRecord(l)
		if err := w.AddLog(&rec); err != nil {
			return nil, err.Error(), ""
		}
	}
	if err := w.Close(); err != nil {
		return nil, err.Error(), ""
	}
	return buf.Bytes(), "", ""
}

func guard(fn func() error) (err error) {
	defer func() {
		if r := recover(); r != nil {
			err = fmt.Errorf("panic@%s: %v", panicSite(), r)
		}
	}()
	return fn()
}

func firstDiff(got, want []string) string {
	for i := 0; i < len(got) || i < len(want); i++ {
		g, w := "<end>", "<end>"
		if i < len(got) {
			g = got[i]
		}
		if i < len(want) {
			w = want[i]
		}
		if g != w {
			return fmt.Sprintf("at position %d: got %s, want %s (got %d records, want %d)", i, g, w, len(got), len(want))
		}
	}
	return ""
}

func diffKind(got, want []string) string {
	if len(got) < len(want) {
		return "records-missing"
	}
	if len(got) > len(want) {
		return "records-extra"
	}
	for i := range got {
		if got[i] != want[i] {
			if strings.HasSuffix(want[i], " del") && !strings.HasSuffix(got[i], " del") {
				return "deletion-read-as-entry"
			}
			return "record-differs"
		}
	}
	return ""
}

type caseJSON struct {
	Family string
	Cfg    tablegen.Cfg
	Min    uint64
	Max    uint64
	Note   string
	Refs   []refdb.Ref
	Logs   []refdb.Log
	Keys   []string `json:",omitempty"`
}

func caseOf(c *tablegen.Case) caseJSON {
	return caseJSON{c.Family, c.Cfg, c.Min, c.Max, c.Note, c.Refs, c.Logs, nil}
}

func logKey(name string, ui uint64) string {
	var b [9]byte
	binary.BigEndian.PutUint64(b[1:], math.MaxUint64-ui)
	return name + string(b[:])
}

// shapeOf describes the layout a table turned out to have (for the evidence and for signatures).
func shapeOf(t *fmtspec.Table) string {
	if t == nil {
		return "undecodable"
	}
	nb := map[byte]int{}
	for _, b := range t.Blocks {
		nb[b.Typ]++
	}
	cls := func(n int) string {
		switch {
		case n == 0:
			return "0"
		case n == 1:
			return "1"
		case n <= 3:
			return "2-3"
		}
		return "4+"
	}
	return fmt.Sprintf("r=%s/L%d o=%s g=%s/L%d", cls(nb['r']), t.IndexLevels['r'], cls(nb['o']), cls(nb['g']), t.IndexLevels['g'])
}

func nontrivial(c *tablegen.Case, t *fmtspec.Table) bool {
	if len(c.Logs) > 0 {
		return true
	}
	for _, r := range c.Refs {
		if r.Kind == 0 {
			return true
		}
	}
	return t != nil && (len(t.Blocks) >= 2 || t.Unaligned)
}

// checkTable applies the oracle of prop to one case.
// outOfDomain yields inputs OUTSIDE the writer's documented domain (keys not strictly ascending): the writer may
// refuse them (error or panic), but whatever it accepts and emits must still be a well-formed table.
func outOfDomain(yield func(*tablegen.Case)) {
	for _, cfg := range []tablegen.Cfg{{}, {BlockSize: 128, Unaligned: true}, {SHA256: true}} {
		hs := cfg.HashSize()
		ref := func(n string) refdb.Ref {
			return refdb.Ref{Name: n, UpdateIndex: 5, Kind: 1, Value: tablegen.Oid("v"+n, hs)}
		}
		lg := func(n string, ui uint64) refdb.Log {
			return refdb.Log{Name: n, UpdateIndex: ui, Old: tablegen.Oid("o", hs), New: tablegen.Oid("n", hs), Who: "w", Email: "e", Time: 100, Message: "m\n"}
		}
		var many []refdb.Ref
		for i := 0; i < 30; i++ {
			many = append(many, ref(fmt.Sprintf("refs/heads/b%02d", i)))
		}
		many = append(many, many[len(many)-1])
		for i, c := range []*tablegen.Case{
			{Refs: []refdb.Ref{ref("a"), ref("a")}},
			{Refs: []refdb.Ref{ref("b"), ref("a")}},
			{Refs: []refdb.Ref{ref("a"), ref("b"), ref("b")}},
			{Refs: many},
			{Logs: []refdb.Log{lg("a", 5), lg("a", 5)}},
			{Logs: []refdb.Log{lg("a", 4), lg("a", 5)}},
			{Logs: []refdb.Log{lg("b", 5), lg("a", 5)}},
			{Refs: []refdb.Ref{ref("a")}, Logs: []refdb.Log{lg("a", 5), lg("a", 5)}},
		} {
			c.Family, c.Cfg, c.Min, c.Max, c.Note = "F0", cfg, 5, 5, fmt.Sprintf("out-of-domain #%d", i)
			yield(c)
		}
	}
}

func checkOutOfDomain(c *tablegen.Case, res *workerResult) {
	res.Cases++
	data, rejected, perr := writeTable(c)
	if perr != "" || rejected != "" {
		res.Rejected++
		return
	}
	if _, derr := fmtspec.Decode(data); derr != nil {
		res.violate("wellformed:emitted-for-out-of-domain-input:"+errClass(derr.Error()), fmt.Sprintf("%s: the writer accepted keys that are not strictly ascending and emitted a table that is not well-formed: %v", c.ID(), derr), caseOf(c))
	}
}

func checkTable(prop string, c *tablegen.Case, res *workerResult) {
	res.Cases++
	data, rejected, perr := writeTable(c)
	if perr != "" {
		res.violate("write:"+errClass(perr), fmt.Sprintf("%s: the writer panicked on an in-domain input: %s", c.ID(), perr), caseOf(c))
		return
	}
	if rejected != "" {
		if strings.Contains(rejected, "too large") || strings.Contains(rejected, "table is empty") {
			res.Rejected++
			return
		}
		res.violate("write:rejects-in-domain-input:"+errClass(rejected), fmt.Sprintf("%s: the writer rejected an in-domain input: %s", c.ID(), rejected), caseOf(c))
		return
	}
	wantRefs, wantLogs := tablegen.Normalise(c)
	hs := c.Cfg.HashSize()
	dec, derr := fmtspec.Decode(data)
	res.Shapes[shapeOf(dec)]++
	if nontrivial(c, dec) {
		res.Nontrivial++
	}
	if len(res.Samples) < 2 && len(c.Refs)+len(c.Logs) > 2 {
		res.Samples = append(res.Samples, fmt.Sprintf("%s -> %d bytes, layout %s", c.ID(), len(data), shapeOf(dec)))
	}
	switch prop {
	case "C14":
		if derr != nil {
			res.violate("wellformed:"+errClass(derr.Error())+"/"+c.Family, fmt.Sprintf("%s: emitted table is not well-formed: %v", c.ID(), derr), caseOf(c))
			return
		}
		gr, gl := hx.TableCanon(dec)
		if d := firstDiff(gr, wantRefs); d != "" {
			res.violate("wellformed:decoded-refs-"+diffKind(gr, wantRefs), fmt.Sprintf("%s: decoding by the format rules does not give the refs written: %s", c.ID(), d), caseOf(c))
		}
		if d := firstDiff(gl, wantLogs); d != "" {
			res.violate("wellformed:decoded-logs-"+diffKind(gl, wantLogs), fmt.Sprintf("%s: decoding by the format rules does not give the logs written: %s", c.ID(), d), caseOf(c))
		}
		wantBS := c.Cfg.BlockSize
		if wantBS == 0 {
			wantBS = 4096
		}
		if dec.Min != c.Min || dec.Max != c.Max || dec.HashSize != hs || dec.BlockSize != wantBS {
			res.violate("wellformed:header-fields", fmt.Sprintf("%s: header says min=%d max=%d hash=%d bs=%d", c.ID(), dec.Min, dec.Max, dec.HashSize, dec.BlockSize), caseOf(c))
		}
		res.Checks += 3
	case "C01":
		var gr, gl []string
		err := guard(func() error {
			rd, err := reftable.NewReader(&reftable.ByteBlockSource{Source: data}, "t")
			if err != nil {
				return fmt.Errorf("NewReader: %v", err)
			}
			gr, gl, err = hx.ReadAll(rd, hs)
			return err
		})
		res.Checks += 2
		if err != nil {
			sec := "ref"
			if strings.Contains(err.Error(), "log scan") || len(c.Refs) == 0 {
				sec = "log"
			}
			res.violate("roundtrip:"+sec+"-read-fails:"+errClass(err.Error()), fmt.Sprintf("%s: reading back fails: %v", c.ID(), err), caseOf(c))
			return
		}
		if d := firstDiff(gr, wantRefs); d != "" {
			res.violate("roundtrip:refs-"+diffKind(gr, wantRefs), fmt.Sprintf("%s: refs read back differ: %s", c.ID(), d), caseOf(c))
		}
		if d := firstDiff(gl, wantLogs); d != "" {
			res.violate("roundtrip:logs-"+diffKind(gl, wantLogs), fmt.Sprintf("%s: logs read back differ: %s", c.ID(), d), caseOf(c))
		}
	case "C02":
		checkSeeks(c, data, dec, wantRefs, wantLogs, res)
	}
}

// refKeyClasses returns the lookup keys of every class for the given sorted names.
func refKeyClasses(names []string) []string {
	set := map[string]bool{"": true}
	for _, k := range names {
		set[k] = true
		set[k+"\x01"] = true
		if len(k) > 0 {
			b := []byte(k)
			if b[len(b)-1] > 0 {
				b[len(b)-1]--
				set[string(b)+"\xff\xff"] = true
			}
		}
		// proper prefixes (all for short names; the head and the tail for long ones)
		for l := 1; l < len(k); l++ {
			if len(k) <= 24 || l <= 12 || l >= len(k)-2 {
				set[k[:l]] = true
			}
		}
	}
	if len(names) > 0 {
		set[names[len(names)-1]+"~"] = true
	}
	set["\xff\xff\xff\xff"] = true
	out := make([]string, 0, len(set))
	for k := range set {
		out = append(out, k)
	}
	sort.Strings(out)
	return out
}

func checkSeeks(c *tablegen.Case, data []byte, dec *fmtspec.Table, wantRefs, wantLogs []string, res *workerResult) {
	hs := c.Cfg.HashSize()
	var rd *reftable.Reader
	if err := guard(func() error {
		var err error
		rd, err = reftable.NewReader(&reftable.ByteBlockSource{Source: data}, "t")
		return err
	}); err != nil {
		res.violate("seek:open-fails:"+errClass(err.Error()), fmt.Sprintf("%s: NewReader: %v", c.ID(), err), caseOf(c))
		return
	}
	layout := shapeOf(dec)
	idxClass := func(sec byte) string {
		if dec == nil {
			return "L?"
		}
		return fmt.Sprintf("L%d", dec.IndexLevels[sec])
	}
	full := len(c.Refs) <= 16
	// ---- refs
	names := make([]string, len(c.Refs))
	for i, r := range c.Refs {
		names[i] = r.Name
	}
	rkeys := refKeyClasses(names)
	if len(names) > 1000 {
		// the saturation family: seek a spread of keys, not all 300k classes
		var sub []string
		for i := 0; i < len(rkeys); i += len(rkeys)/400 + 1 {
			sub = append(sub, rkeys[i])
		}
		rkeys = append(sub, rkeys[len(rkeys)-3:]...)
	}
	for _, k := range rkeys {
		i := sort.SearchStrings(names, k)
		want := wantRefs[i:]
		limit := len(want) + 1
		if !full && limit > 4 {
			limit = 4
		}
		var got []string
		err := guard(func() error {
			it, err := rd.SeekRef(k)
			if err != nil {
				return err
			}
			var r reftable.RefRecord // one record, reused (see hx.ScanRefs)
			for len(got) < limit {
				ok, err := it.NextRef(&r)
				if err != nil {
					return err
				}
				if !ok {
					if again, _ := it.NextRef(&r); again {
						return fmt.Errorf("iterator yields a record (%s) after reporting the end of the iteration", hx.RefCanon(&r))
					}
					break
				}
				got = append(got, hx.RefCanon(&r))
			}
			return nil
		})
		res.Checks++
		cj := caseOf(c)
		cj.Keys = []string{k}
		if err != nil {
			res.violate("seek:ref-seek-fails:"+errClass(err.Error())+"/"+idxClass('r'), fmt.Sprintf("%s (%s): SeekRef(%q) fails: %v", c.ID(), layout, k, err), cj)
			continue
		}
		w := want
		if len(w) > limit {
			w = w[:limit]
		}
		if d := firstDiff(got, w); d != "" {
			res.violate("seek:ref-suffix-"+diffKind(got, w)+"/"+idxClass('r'), fmt.Sprintf("%s (%s): SeekRef(%q) does not yield the scan suffix: %s", c.ID(), layout, k, d), cj)
		}
		// ReadRef
		var rr *reftable.RefRecord
		err = guard(func() error {
			var err error
			rr, err = reftable.ReadRef(rd, k)
			return err
		})
		res.Checks++
		present := i < len(names) && names[i] == k
		switch {
		case err != nil:
			res.violate("seek:readref-fails:"+errClass(err.Error())+"/"+idxClass('r'), fmt.Sprintf("%s (%s): ReadRef(%q) fails: %v", c.ID(), layout, k, err), cj)
		case present && (rr == nil || hx.RefCanon(rr) != wantRefs[i]):
			res.violate("seek:readref-misses-present-ref/"+idxClass('r'), fmt.Sprintf("%s (%s): ReadRef(%q) = %v, want %s", c.ID(), layout, k, rr, wantRefs[i]), cj)
		case !present && rr != nil:
			res.violate("seek:readref-finds-absent-ref/"+idxClass('r'), fmt.Sprintf("%s (%s): ReadRef(%q) = %s for an absent name", c.ID(), layout, k, hx.RefCanon(rr)), cj)
		}
	}
	// ---- logs
	type lk struct {
		name string
		ui   uint64
	}
	keys := make([]string, len(c.Logs))
	lset := map[lk]bool{}
	nameSet := map[string]bool{}
	for i, l := range c.Logs {
		keys[i] = logKey(l.Name, l.UpdateIndex)
		nameSet[l.Name] = true
		for _, u := range []uint64{l.UpdateIndex, l.UpdateIndex + 1, l.UpdateIndex - 1, 0, math.MaxUint64} {
			lset[lk{l.Name, u}] = true
		}
	}
	for n := range nameSet {
		lset[lk{n + "\x01", math.MaxUint64}] = true
		if len(n) > 1 {
			lset[lk{n[:len(n)-1], math.MaxUint64}] = true
			lset[lk{n[:len(n)-1], 0}] = true
		}
	}
	lset[lk{"", math.MaxUint64}] = true
	lset[lk{"\xff\xff", 5}] = true
	var lks []lk
	for k := range lset {
		lks = append(lks, k)
	}
	sort.Slice(lks, func(i, j int) bool { return logKey(lks[i].name, lks[i].ui) < logKey(lks[j].name, lks[j].ui) })
	fullL := len(c.Logs) <= 16
	for _, k := range lks {
		key := logKey(k.name, k.ui)
		i := sort.SearchStrings(keys, key)
		want := wantLogs[i:]
		limit := len(want) + 1
		if !fullL && limit > 4 {
			limit = 4
		}
		var got []string
		err := guard(func() error {
			it, err := rd.SeekLog(k.name, k.ui)
			if err != nil {
				return err
			}
			var l reftable.LogRecord // one record, reused
			for len(got) < limit {
				ok, err := it.NextLog(&l)
				if err != nil {
					return err
				}
				if !ok {
					if again, _ := it.NextLog(&l); again {
						return fmt.Errorf("iterator yields a record (%s) after reporting the end of the iteration", hx.LogCanon(&l, hs))
					}
					break
				}
				got = append(got, hx.LogCanon(&l, hs))
			}
			return nil
		})
		res.Checks++
		cj := caseOf(c)
		cj.Keys = []string{fmt.Sprintf("%q@%d", k.name, k.ui)}
		if err != nil {
			res.violate("seek:log-seek-fails:"+errClass(err.Error())+"/"+idxClass('g'), fmt.Sprintf("%s (%s): SeekLog(%q,%d) fails: %v", c.ID(), layout, k.name, k.ui, err), cj)
			continue
		}
		w := want
		if len(w) > limit {
			w = w[:limit]
		}
		if d := firstDiff(got, w); d != "" {
			res.violate("seek:log-suffix-"+diffKind(got, w)+"/"+idxClass('g'), fmt.Sprintf("%s (%s): SeekLog(%q,%d) does not yield the scan suffix: %s", c.ID(), layout, k.name, k.ui, d), cj)
		}
		// ReadLogAt: newest entry of that ref with index <= u
		var lr *reftable.LogRecord
		err = guard(func() error {
			var err error
			lr, err = reftable.ReadLogAt(rd, k.name, k.ui)
			return err
		})
		res.Checks++
		present := i < len(keys) && c.Logs[i].Name == k.name
		switch {
		case err != nil:
			res.violate("seek:readlogat-fails:"+errClass(err.Error())+"/"+idxClass('g'), fmt.Sprintf("%s (%s): ReadLogAt(%q,%d) fails: %v", c.ID(), layout, k.name, k.ui, err), cj)
		case present && (lr == nil || hx.LogCanon(lr, hs) != wantLogs[i]):
			res.violate("seek:readlogat-wrong-entry/"+idxClass('g'), fmt.Sprintf("%s (%s): ReadLogAt(%q,%d) = %v, want %s", c.ID(), layout, k.name, k.ui, lr, wantLogs[i]), cj)
		case !present && lr != nil:
			res.violate("seek:readlogat-finds-absent/"+idxClass('g'), fmt.Sprintf("%s (%s): ReadLogAt(%q,%d) = %s though the ref has no entry at or below that index", c.ID(), layout, k.name, k.ui, hx.LogCanon(lr, hs)), cj)
		}
	}
	if dec != nil {
		sec := 0
		for _, b := range dec.Blocks {
			if b.Typ == 'r' || b.Typ == 'g' {
				sec++
			}
		}
		_ = sec
	}
}

func runWorker(prop, tier string, wi, wn int, res *workerResult) {
	p := planFor(prop, tier)
	if prop == "C03" || prop == "C11" {
		runStacks(prop, tier, wi, wn, p, res)
		if prop == "C03" {
			runBigStacks(tier, wi, wn, res)
		}
		return
	}
	if prop == "C14" {
		// the stack half: every table file written by Add and by compaction in the history search
		hist.RunC07("C14", tier, wi, wn, res)
	}
	unit := 0
	mine := func() bool { unit++; return (unit-1)%wn == wi }
	yield := func(c *tablegen.Case) { checkTable(prop, c, res) }
	if prop == "C14" {
		outOfDomain(func(c *tablegen.Case) {
			if mine() {
				checkOutOfDomain(c, res)
			}
		})
	}
	if prop == "C01" || prop == "C02" || prop == "C14" {
		tablegen.F5(func(c *tablegen.Case) {
			if mine() {
				checkTable(prop, c, res)
			}
		})
	}
	if prop == "C01" || prop == "C14" {
		// the object-index family also has to round-trip and be well-formed
		for _, cfg := range refsForCfgs(tier != "thorough") {
			if mine() {
				tablegen.F4(cfg, yield)
			}
			if !cfg.SkipObj && (cfg.BlockSize == 128 || cfg.BlockSize == 256) && mine() {
				tablegen.F4Fan(cfg, 120, 3, yield)
			}
		}
	}
	for ci, cfg := range p.cfgs {
		if p.f1 {
			stride := 1
			if ci >= p.f1Full {
				stride = p.f1Stride
			}
			for _, lim := range p.f1Lim {
				// F1 is large: partition it case by case so that no worker gets a whole configuration
				n := 0
				tablegen.F1(cfg, lim[0], lim[1], stride, func(c *tablegen.Case) {
					n++
					if n%wn == wi {
						checkTable(prop, c, res)
					}
				})
			}
		}
		if len(p.f2) > 0 {
			for _, n := range p.f2 {
				if mine() {
					tablegen.F2(cfg, []int{n}, yield)
				}
			}
			// the same structure with update indices above 2^32 and with minimum 0 (every fourth size)
			for ni, n := range p.f2 {
				if ni%4 == 1 && mine() {
					tablegen.F2At(cfg, []int{n}, 1<<32+5, yield)
					tablegen.F2At(cfg, []int{n}, 0, yield)
				}
			}
		}
		if p.f3 > 0 && p.f3BS[cfg.BlockSize] {
			lim := p.f3
			if int(cfg.BlockSize)+40 < lim {
				lim = int(cfg.BlockSize) + 40
			}
			if mine() {
				tablegen.F3(cfg, lim, yield)
			}
		}
	}
}

func replayCase(prop string, raw json.RawMessage, res *workerResult) error {
	var cj caseJSON
	if err := json.Unmarshal(raw, &cj); err != nil {
		return err
	}
	if cj.Family == "stack" {
		return replayStack(prop, raw, res)
	}
	if cj.Family == "bigstack" {
		// the family is small: a replay re-runs all of it (the violation is found again if it is still there)
		runBigStacks("thorough", 0, 1, res)
		return nil
	}
	if cj.Family == "history" {
		var hj struct{ History json.RawMessage }
		if err := json.Unmarshal(raw, &hj); err != nil {
			return err
		}
		return hist.ReplayC07(prop, hj.History, res)
	}
	c := &tablegen.Case{Family: cj.Family, Cfg: cj.Cfg, Min: cj.Min, Max: cj.Max, Refs: cj.Refs, Logs: cj.Logs, Note: cj.Note}
	if prop == "C11" {
		checkRefsForTable(c, res)
		return nil
	}
	if c.Family == "F0" {
		checkOutOfDomain(c, res)
		return nil
	}
	checkTable(prop, c, res)
	return nil
}

func decodeQuiet(data []byte) *fmtspec.Table {
	t, err := fmtspec.Decode(data)
	if err != nil {
		return nil
	}
	return t
}
