package main

import (
	"encoding/json"
	"fmt"
	"math"
	"sort"

	"github.com/google/reftable"

	"verif/internal/hx"
	"verif/model/refdb"
	"verif/model/tablegen"
)

// ---------------------------------------------------------------- small-table stacks (C03, C11)

// A pattern assigns to each key one of: 0 absent, 1 value (kind A), 2 deletion, 3 value (kind B).
type pattern []int

type stackCase struct {
	Family string // "stack"
	SHA256 bool
	Kind   string    // "refs", "logs", "refsfor"
	Pats   []pattern // one per table, oldest first
	Key    string    `json:",omitempty"`
}

var stackRefNames = []string{"a", "a/b", "b"}

type lkey struct {
	name string
	ui   uint64
}

var stackLogKeys = []lkey{{"a", 2}, {"a", 1}, {"b", 2}, {"b", 1}} // key order

func patterns(nkeys, nvals int) []pattern {
	var out []pattern
	total := 1
	for i := 0; i < nkeys; i++ {
		total *= nvals
	}
	for code := 1; code < total; code++ { // code 0 = empty table, excluded
		p := make(pattern, nkeys)
		c := code
		for i := range p {
			p[i] = c % nvals
			c /= nvals
		}
		out = append(out, p)
	}
	return out
}

type builtTable struct {
	rd   *reftable.Reader
	refs []refdb.Ref
	logs []refdb.Log
}

type tableCache struct {
	hs   int
	sha  bool
	kind string
	m    map[string]*builtTable
}

var oidA, oidB []byte

func (tc *tableCache) get(p pattern, pos int, res *workerResult) *builtTable {
	k := fmt.Sprint(p, pos)
	if t, ok := tc.m[k]; ok {
		return t
	}
	ui := uint64(pos + 1)
	c := &tablegen.Case{Family: "stack", Cfg: tablegen.Cfg{SHA256: tc.sha}, Min: ui, Max: ui}
	switch tc.kind {
	case "refs":
		for i, v := range p {
			switch v {
			case 1:
				c.Refs = append(c.Refs, refdb.Ref{Name: stackRefNames[i], UpdateIndex: ui, Kind: 1, Value: tablegen.Oid(fmt.Sprintf("v%d", pos), tc.hs)})
			case 2:
				c.Refs = append(c.Refs, refdb.Ref{Name: stackRefNames[i], UpdateIndex: ui, Kind: 0})
			}
		}
	case "logs":
		for i, v := range p {
			lk := stackLogKeys[i]
			switch v {
			case 1:
				c.Logs = append(c.Logs, refdb.Log{Name: lk.name, UpdateIndex: lk.ui, Old: tablegen.Oid("o", tc.hs), New: tablegen.Oid(fmt.Sprintf("n%d", pos), tc.hs), Who: "w", Email: "e", Time: uint64(100 + pos), TZ: 60, Message: fmt.Sprintf("table %d\n", pos)})
			case 2:
				c.Logs = append(c.Logs, refdb.Log{Name: lk.name, UpdateIndex: lk.ui, Deletion: true})
			}
		}
	case "refsfor":
		for i, v := range p {
			switch v {
			case 1:
				c.Refs = append(c.Refs, refdb.Ref{Name: stackRefNames[i], UpdateIndex: ui, Kind: 1, Value: oidA})
			case 2:
				c.Refs = append(c.Refs, refdb.Ref{Name: stackRefNames[i], UpdateIndex: ui, Kind: 0})
			case 3:
				c.Refs = append(c.Refs, refdb.Ref{Name: stackRefNames[i], UpdateIndex: ui, Kind: 2, Value: oidB, Peeled: oidA})
			}
		}
	}
	data, rej, perr := writeTable(c)
	if perr != "" || rej != "" {
		panic(fmt.Sprintf("stack table %v@%d cannot be written: %s %s", p, pos, rej, perr))
	}
	rd, err := reftable.NewReader(&reftable.ByteBlockSource{Source: data}, fmt.Sprintf("t%d", pos))
	if err != nil {
		panic(fmt.Sprintf("stack table %v@%d cannot be opened: %v", p, pos, err))
	}
	// normalise the model the way a reader returns records
	bt := &builtTable{rd: rd, refs: c.Refs, logs: c.Logs}
	tc.m[k] = bt
	return bt
}

func hashID(sha bool) reftable.HashID {
	if sha {
		return reftable.SHA256ID
	}
	return reftable.SHA1ID
}

func checkStack(prop string, sc *stackCase, tc *tableCache, res *workerResult) {
	res.Cases++
	hs := tc.hs
	var tabs []reftable.Table
	db := refdb.New()
	overlap := false
	seen := map[string]bool{}
	for i, p := range sc.Pats {
		bt := tc.get(p, i, res)
		tabs = append(tabs, bt.rd)
		for _, r := range bt.refs {
			if seen["r"+r.Name] {
				overlap = true
			}
			seen["r"+r.Name] = true
			db.PutRef(r)
		}
		for _, l := range bt.logs {
			k := fmt.Sprintf("l%s/%d", l.Name, l.UpdateIndex)
			if seen[k] {
				overlap = true
			}
			seen[k] = true
			db.PutLog(l)
		}
	}
	if len(sc.Pats) >= 2 && overlap {
		res.Nontrivial++
	}
	if len(res.Samples) < 2 && len(sc.Pats) == 3 && overlap {
		js, _ := json.Marshal(sc)
		res.Samples = append(res.Samples, string(js))
	}
	for _, suppress := range []bool{false, true} {
		view := "raw"
		model := db
		if suppress {
			view = "stack"
			model = db.DropTombstones()
		}
		var m *reftable.Merged
		err := guard(func() error {
			var err error
			m, err = reftable.VerifNewMerged(tabs, hashID(sc.SHA256), suppress)
			return err
		})
		if err != nil {
			res.violate("merged:open-fails:"+errClass(err.Error()), fmt.Sprintf("%v: NewMerged: %v", sc, err), sc)
			return
		}
		// the view's update-index limits are those of its oldest and newest table (tables sit at update index
		// position+1 in this family)
		if !suppress {
			var mn, mx uint64
			if err := guard(func() error { mn, mx = m.MinUpdateIndex(), m.MaxUpdateIndex(); return nil }); err != nil {
				res.violate("merged:limits-panic", fmt.Sprintf("%v: Min/MaxUpdateIndex: %v", sc.Pats, err), sc)
			} else if mn != 1 || mx != uint64(len(sc.Pats)) {
				res.violate("merged:limits-wrong", fmt.Sprintf("view of %d tables at update indices 1..%d reports limits [%d,%d]", len(sc.Pats), len(sc.Pats), mn, mx), sc)
			}
		}
		if prop == "C11" {
			checkRefsForMerged(sc, view, m, model, res)
			continue
		}
		wantRefs, wantLogs := model.Canon(hs)
		if sc.Kind == "refs" {
			names := []string{}
			for _, r := range model.SortedRefs() {
				names = append(names, r.Name)
			}
			for _, k := range refKeyClasses(stackRefNames) {
				i := sort.SearchStrings(names, k)
				var got []string
				err := guard(func() error {
					var err error
					got, err = hx.ScanRefs(m, k)
					return err
				})
				res.Checks++
				c2 := *sc
				c2.Key = k
				if err != nil {
					res.violate("merged:"+view+"-ref-seek-fails:"+errClass(err.Error()), fmt.Sprintf("%s view of %v: SeekRef(%q): %v", view, sc.Pats, k, err), c2)
					continue
				}
				if d := firstDiff(got, wantRefs[i:]); d != "" {
					res.violate("merged:"+view+"-refs-"+diffKind(got, wantRefs[i:]), fmt.Sprintf("%s view of tables %v (0 absent, 1 value, 2 deletion per name %v): SeekRef(%q) differs from the newest-wins overlay: %s", view, sc.Pats, stackRefNames, k, d), c2)
				}
			}
		} else {
			var keys []string
			for _, l := range model.SortedLogs() {
				keys = append(keys, logKey(l.Name, l.UpdateIndex))
			}
			seeks := []lkey{{"", math.MaxUint64}, {"a", math.MaxUint64}, {"a", 2}, {"a", 1}, {"a", 0}, {"a\x01", 9}, {"b", 3}, {"b", 2}, {"b", 1}, {"b", 0}, {"c", 1}}
			for _, k := range seeks {
				key := logKey(k.name, k.ui)
				i := sort.SearchStrings(keys, key)
				var got []string
				err := guard(func() error {
					var err error
					got, err = hx.ScanLogs(m, k.name, k.ui, hs)
					return err
				})
				res.Checks++
				c2 := *sc
				c2.Key = fmt.Sprintf("%q@%d", k.name, k.ui)
				if err != nil {
					res.violate("merged:"+view+"-log-seek-fails:"+errClass(err.Error()), fmt.Sprintf("%s view of %v: SeekLog(%q,%d): %v", view, sc.Pats, k.name, k.ui, err), c2)
					continue
				}
				if d := firstDiff(got, wantLogs[i:]); d != "" {
					res.violate("merged:"+view+"-logs-"+diffKind(got, wantLogs[i:]), fmt.Sprintf("%s view of tables %v (0 absent, 1 entry, 2 deletion per key %v): SeekLog(%q,%d) differs from the newest-wins overlay: %s", view, sc.Pats, stackLogKeys, k.name, k.ui, d), c2)
				}
			}
		}
	}
}

func enumStacks(pats []pattern, maxK int, yield func([]pattern)) {
	var rec func(cur []pattern)
	rec = func(cur []pattern) {
		if len(cur) > 0 {
			yield(cur)
		}
		if len(cur) == maxK {
			return
		}
		for _, p := range pats {
			rec(append(append([]pattern{}, cur...), p))
		}
	}
	rec(nil)
}

// checkMergedRefusals: a merged view is only defined over tables of one hash type whose update-index ranges
// strictly increase; NewMerged must refuse everything else (touching ranges, reversed order, a foreign hash type)
// and must accept an empty list, whose limits are [0,0].
func checkMergedRefusals(res *workerResult) {
	mk := func(min, max uint64, sha bool) reftable.Table {
		c := &tablegen.Case{Family: "stack", Cfg: tablegen.Cfg{SHA256: sha}, Min: min, Max: max}
		hs := c.Cfg.HashSize()
		c.Refs = []refdb.Ref{{Name: "a", UpdateIndex: min, Kind: 1, Value: tablegen.Oid("v", hs)}}
		data, rej, perr := writeTable(c)
		if rej != "" || perr != "" {
			panic("refusal fixture cannot be written: " + rej + perr)
		}
		rd, err := reftable.NewReader(&reftable.ByteBlockSource{Source: data}, fmt.Sprintf("t%d-%d", min, max))
		if err != nil {
			panic(err)
		}
		return rd
	}
	type tc struct {
		name string
		tabs []reftable.Table
		sha  bool
		ok   bool
	}
	for _, c := range []tc{
		{"touching ranges [1,2] [2,3]", []reftable.Table{mk(1, 2, false), mk(2, 3, false)}, false, false},
		{"overlapping ranges [1,3] [2,4]", []reftable.Table{mk(1, 3, false), mk(2, 4, false)}, false, false},
		{"reversed order [3,4] [1,2]", []reftable.Table{mk(3, 4, false), mk(1, 2, false)}, false, false},
		{"equal single indices [2,2] [2,2]", []reftable.Table{mk(2, 2, false), mk(2, 2, false)}, false, false},
		{"a sha256 table in a sha1 view", []reftable.Table{mk(1, 1, false), mk(2, 2, true)}, false, false},
		{"a sha1 table in a sha256 view", []reftable.Table{mk(1, 1, false)}, true, false},
		{"adjacent ranges [1,2] [3,3]", []reftable.Table{mk(1, 2, false), mk(3, 3, false)}, false, true},
		{"no table at all", nil, false, true},
	} {
		res.Checks++
		var m *reftable.Merged
		err := guard(func() error {
			var err error
			m, err = reftable.NewMerged(c.tabs, hashID(c.sha))
			return err
		})
		if c.ok && err != nil {
			res.violate("merged:refuses-legal-stack", fmt.Sprintf("NewMerged refuses %s: %v", c.name, err), &stackCase{Family: "stack"})
		}
		if !c.ok && err == nil {
			res.violate("merged:accepts-illegal-stack", fmt.Sprintf("NewMerged accepts %s: newest-wins is not defined for it", c.name), &stackCase{Family: "stack"})
		}
		if c.ok && err == nil && len(c.tabs) == 0 {
			if e2 := guard(func() error {
				if m.MinUpdateIndex() != 0 || m.MaxUpdateIndex() != 0 {
					return fmt.Errorf("limits of an empty view are [%d,%d]", m.MinUpdateIndex(), m.MaxUpdateIndex())
				}
				return nil
			}); e2 != nil {
				res.violate("merged:empty-view-limits", e2.Error(), &stackCase{Family: "stack"})
			}
		}
	}
}

func runStacks(prop, tier string, wi, wn int, p plan, res *workerResult) {
	quick := tier != "thorough"
	if prop == "C03" && wi == 0 {
		checkMergedRefusals(res)
	}
	shas := []bool{false}
	if !quick {
		shas = []bool{false, true}
	}
	unit := 0
	for _, sha := range shas {
		hs := 20
		if sha {
			hs = 32
		}
		oidA, oidB = tablegen.Oid("A", hs), tablegen.Oid("B", hs)
		type fam struct {
			kind string
			pats []pattern
			k    int
		}
		var fams []fam
		if prop == "C03" {
			// deeper stacks of single-record tables: the shape of the merge heap depends on the number of tables
			single := func(nkeys int) []pattern {
				var out []pattern
				for i := 0; i < nkeys; i++ {
					for v := 1; v <= 2; v++ {
						q := make(pattern, nkeys)
						q[i] = v
						out = append(out, q)
					}
				}
				return out
			}
			deep := 5
			if !quick {
				deep = 6
			}
			fams = append(fams, fam{"refs", single(3), deep}, fam{"logs", single(4), deep - 1})
			fams = append(fams, fam{"refs", patterns(3, 3), p.stacks})
			if quick {
				fams = append(fams, fam{"logs", patterns(4, 3), 2})
				// three tables over the two keys of one ref
				var two []pattern
				for _, q := range patterns(2, 3) {
					two = append(two, pattern{q[0], q[1], 0, 0})
				}
				fams = append(fams, fam{"logs", two, 3})
			} else {
				fams = append(fams, fam{"logs", patterns(4, 3), 3})
			}
		} else {
			fams = append(fams, fam{"refsfor", patterns(3, 4), 3})
			if !quick {
				var two []pattern
				for _, q := range patterns(2, 4) {
					two = append(two, pattern{q[0], q[1], 0})
				}
				fams = append(fams, fam{"refsfor", two, 4})
			}
		}
		for _, f := range fams {
			tc := &tableCache{hs: hs, sha: sha, kind: f.kind, m: map[string]*builtTable{}}
			enumStacks(f.pats, f.k, func(ps []pattern) {
				unit++
				if (unit-1)%wn != wi {
					return
				}
				checkStack(prop, &stackCase{Family: "stack", SHA256: sha, Kind: f.kind, Pats: ps}, tc, res)
			})
		}
	}
	if prop == "C11" {
		// single tables of family F4
		cfgs := refsForCfgs(quick)
		for _, cfg := range cfgs {
			tablegen.F4(cfg, func(c *tablegen.Case) {
				unit++
				if (unit-1)%wn != wi {
					return
				}
				checkRefsForTable(c, res)
			})
			if cfg.SkipObj {
				continue
			}
			// one object in every possible number of ref blocks (obj records with 1..7 inline positions, with an
			// explicit count, and with the list omitted)
			n, step := 120, 3
			if cfg.BlockSize == 0 {
				n, step = 1600, 75
			}
			tablegen.F4Fan(cfg, n, step, func(c *tablegen.Case) {
				unit++
				if (unit-1)%wn != wi {
					return
				}
				checkRefsForTable(c, res)
			})
		}
	}
}

func refsForCfgs(quick bool) []tablegen.Cfg {
	var out []tablegen.Cfg
	bss := []uint32{64, 96, 128, 256, 0}
	for _, sha := range []bool{false, true} {
		for _, un := range []bool{false, true} {
			for _, skip := range []bool{false, true} {
				for _, bs := range bss {
					if quick && sha && (un || skip) {
						continue
					}
					out = append(out, tablegen.Cfg{SHA256: sha, Unaligned: un, SkipObj: skip, BlockSize: bs})
				}
			}
		}
	}
	return out
}

func modelRefsFor(db *refdb.DB, oid []byte) []string {
	var out []string
	for _, r := range db.RefsFor(oid) {
		out = append(out, refdb.RefCanon(r))
	}
	return out
}

func scanIter(it *reftable.Iterator) ([]string, error) {
	var out []string
	var r reftable.RefRecord // one record, reused
	for {
		ok, err := it.NextRef(&r)
		if err != nil {
			return out, err
		}
		if !ok {
			if again, _ := it.NextRef(&r); again {
				return out, fmt.Errorf("iterator yields a record (%s) after reporting the end of the iteration", hx.RefCanon(&r))
			}
			return out, nil
		}
		out = append(out, hx.RefCanon(&r))
		if len(out) > 10000 {
			return out, fmt.Errorf("iteration does not terminate")
		}
	}
}

func checkRefsForMerged(sc *stackCase, view string, m *reftable.Merged, model *refdb.DB, res *workerResult) {
	oids := [][]byte{oidA, oidB, tablegen.Oid("absent", len(oidA))}
	for oi, oid := range oids {
		want := modelRefsFor(model, oid)
		var got []string
		err := guard(func() error {
			it, err := m.RefsFor(oid)
			if err != nil {
				return err
			}
			got, err = scanIter(it)
			return err
		})
		res.Checks++
		c2 := *sc
		c2.Key = fmt.Sprintf("oid#%d", oi)
		if err != nil {
			res.violate("refsfor:merged-"+view+"-fails:"+errClass(err.Error()), fmt.Sprintf("%s view of tables %v (per name %v: 0 absent, 1 ->A, 2 deleted, 3 ->B peeled A): RefsFor(oid#%d): %v", view, sc.Pats, stackRefNames, oi, err), c2)
			continue
		}
		if d := firstDiff(got, want); d != "" {
			res.violate("refsfor:merged-"+view+"-"+diffKind(got, want), fmt.Sprintf("%s view of tables %v (per name %v: 0 absent, 1 ->A, 2 deleted, 3 ->B peeled A): RefsFor(%s) differs from the live refs pointing at it: %s", view, sc.Pats, stackRefNames, []string{"A", "B", "absent"}[oi], d), c2)
		}
	}
}

func checkRefsForTable(c *tablegen.Case, res *workerResult) {
	res.Cases++
	data, rejected, perr := writeTable(c)
	if perr != "" {
		res.violate("refsfor:write-"+errClass(perr), fmt.Sprintf("%s: writer panicked: %s", c.ID(), perr), caseOf(c))
		return
	}
	if rejected != "" {
		res.Rejected++
		return
	}
	var rd *reftable.Reader
	if err := guard(func() error {
		var err error
		rd, err = reftable.NewReader(&reftable.ByteBlockSource{Source: data}, "t")
		return err
	}); err != nil {
		res.violate("refsfor:open-fails", fmt.Sprintf("%s: %v", c.ID(), err), caseOf(c))
		return
	}
	db := refdb.New()
	for _, r := range c.Refs {
		db.PutRef(r)
	}
	// what kind of object index did the writer produce?
	layout := "no-obj-index"
	{
		if dec := decodeQuiet(data); dec != nil && len(dec.Objs) > 0 {
			layout = "indexed"
			for _, o := range dec.Objs {
				if o.Positions == nil {
					layout = "indexed+truncated"
				}
			}
		}
	}
	res.Shapes[layout]++
	if len(res.Samples) < 2 && layout != "no-obj-index" {
		res.Samples = append(res.Samples, fmt.Sprintf("%s -> %s", c.ID(), layout))
	}
	nontriv := false
	for oi, oid := range tablegen.F4Oids(c) {
		want := modelRefsFor(db, oid)
		if len(want) > 0 {
			nontriv = true
		}
		var got []string
		err := guard(func() error {
			it, err := rd.RefsFor(oid)
			if err != nil {
				return err
			}
			got, err = scanIter(it)
			return err
		})
		res.Checks++
		cj := caseOf(c)
		cj.Keys = []string{fmt.Sprintf("oid#%d=%x", oi, oid)}
		if err != nil {
			res.violate("refsfor:table-"+layout+"-fails:"+errClass(err.Error()), fmt.Sprintf("%s (%s): RefsFor(%x): %v", c.ID(), layout, oid, err), cj)
			continue
		}
		if d := firstDiff(got, want); d != "" {
			res.violate("refsfor:table-"+layout+"-"+diffKind(got, want), fmt.Sprintf("%s (%s): RefsFor(%x) differs from the filter of the full scan: %s", c.ID(), layout, oid, d), cj)
		}
	}
	if nontriv {
		res.Nontrivial++
	}
}

func replayStack(prop string, raw json.RawMessage, res *workerResult) error {
	var sc stackCase
	if err := json.Unmarshal(raw, &sc); err != nil {
		return err
	}
	if len(sc.Pats) == 0 {
		// a violation of the fixed refusal cases
		checkMergedRefusals(res)
		return nil
	}
	hs := 20
	if sc.SHA256 {
		hs = 32
	}
	oidA, oidB = tablegen.Oid("A", hs), tablegen.Oid("B", hs)
	tc := &tableCache{hs: hs, sha: sc.SHA256, kind: sc.Kind, m: map[string]*builtTable{}}
	checkStack(prop, &sc, tc, res)
	return nil
}
