package main

import "strings"

// workerResult as a sink of the stack-history search (C14: every table written by Add
// or by compaction). Only well-formedness findings belong to C14; what the history
// search finds about views is C07's business.
func (r *workerResult) Violate(sig, msg string, h interface{}) {
	if !strings.HasPrefix(sig, "wellformed:") {
		return
	}
	r.violate(sig, msg, map[string]interface{}{"Family": "history", "History": h})
}

func (r *workerResult) Sample(s string) {
	if len(r.Samples) < 3 {
		r.Samples = append(r.Samples, "history: "+s)
	}
}

func (r *workerResult) Count(what string, n int) {
	switch what {
	case "tables_validated":
		r.Extra["stack_tables_validated"] += n
		r.Cases += n
		r.Nontrivial += n
	case "histories":
		r.Extra["stack_histories"] += n
	}
}
