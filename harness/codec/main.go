// Command codec is engine E2: bounded-exhaustive enumeration of tables (model/tablegen)
// written by the real Writer and checked against reference models. It decides
// C01 (round trip), C02 (seek), C14 (well-formedness via the independent decoder),
// C03 (merged views) and C11 (RefsFor).
package main

import (
	"encoding/json"
	"flag"
	"fmt"
	"os"
	"os/exec"
	"sort"
	"strings"
	"sync"
	"time"

	"verif/internal/report"
	"verif/model/tablegen"
)

// viol is one failing case.
type viol struct {
	Sig  string          `json:"sig"`
	Msg  string          `json:"msg"`
	Case json.RawMessage `json:"case"`
	N    int             `json:"n"`
}

type workerResult struct {
	Cases      int              `json:"cases"`
	Rejected   int              `json:"rejected"`
	Nontrivial int              `json:"nontrivial"`
	Checks     int              `json:"checks"` // individual comparisons (seeks, lookups, …)
	Viol       map[string]*viol `json:"viol"`
	Shapes     map[string]int   `json:"shapes"`
	Samples    []string         `json:"samples"`
	Err        string           `json:"err,omitempty"`
	Extra      map[string]int   `json:"extra"`
}

func newResult() *workerResult {
	return &workerResult{Viol: map[string]*viol{}, Shapes: map[string]int{}, Extra: map[string]int{}}
}

func (r *workerResult) violate(sig, msg string, c interface{}) {
	if v, ok := r.Viol[sig]; ok {
		v.N++
		return
	}
	js, _ := json.Marshal(c)
	r.Viol[sig] = &viol{Sig: sig, Msg: msg, Case: js, N: 1}
}

type plan struct {
	cfgs   []tablegen.Cfg
	f1     bool
	f1Lim  [][2]uint64
	f2     []int
	f3     int // fill-sweep limit (0: none); applied only for configurations with BlockSize<=512 and >0
	f3BS   map[uint32]bool
	f4     bool
	stacks int // C03/C11: max tables per stack
	// f1Full: number of leading configurations whose F1 is enumerated completely; the others use f1Stride
	f1Full   int
	f1Stride int
}

func planFor(prop, tier string) plan {
	quick := tier != "thorough"
	p := plan{}
	if quick {
		p.cfgs = tablegen.QuickCfgs()
	} else {
		p.cfgs = tablegen.AllCfgs(tablegen.FullBlockSizes, tablegen.FullRestarts)
	}
	switch prop {
	case "C01", "C14":
		p.f1 = true
		p.f1Lim = tablegen.Limits
		p.f1Full, p.f1Stride = len(p.cfgs), 1
		if quick {
			p.f1Lim = [][2]uint64{{5, 9}}
			if prop == "C01" {
				p.f1Lim = append(p.f1Lim, [2]uint64{1 << 32, 1<<32 + 3})
			}
			p.f1Full, p.f1Stride = 2, 8
			// put three diverse configurations first
			p.cfgs = append([]tablegen.Cfg{{}, {Unaligned: true, BlockSize: 128, Restart: 2}, {SHA256: true, ExactMsg: true, BlockSize: 256}}, p.cfgs...)
		} else {
			// full F1 on every boolean combination x {128, default} block size; the rest of the grid strided
			var lead, rest []tablegen.Cfg
			for _, c := range p.cfgs {
				if (c.BlockSize == 128 || c.BlockSize == 0) && c.Restart == 0 {
					lead = append(lead, c)
				} else {
					rest = append(rest, c)
				}
			}
			p.cfgs = append(lead, rest...)
			p.f1Full, p.f1Stride = len(lead), 40
		}
		p.f2 = tablegen.F2Counts
		p.f3 = 600
		p.f3BS = map[uint32]bool{128: true, 256: true}
		if !quick {
			p.f3BS = map[uint32]bool{64: true, 96: true, 128: true, 256: true, 512: true}
		}
	case "C02":
		p.f2 = tablegen.F2Counts
		p.f3 = 300
		p.f3BS = map[uint32]bool{128: true}
		if !quick {
			p.f3 = 600
			p.f3BS = map[uint32]bool{64: true, 96: true, 128: true, 256: true, 512: true}
		}
	case "C11":
		p.f4 = true
		p.stacks = 3
	case "C03":
		p.stacks = 3
		if !quick {
			p.stacks = 4
		}
	}
	return p
}

func main() {
	prop := flag.String("property", "", "C01 C02 C03 C11 C14")
	tier := flag.String("tier", "quick", "")
	worker := flag.String("worker", "", "internal: i/n")
	replay := flag.String("replay", "", "")
	bindRep := flag.String("bindreport", "", "")
	flag.Parse()
	if *replay != "" {
		os.Exit(doReplay(*prop, *replay))
	}
	if *worker != "" {
		var i, n int
		fmt.Sscanf(*worker, "%d/%d", &i, &n)
		res := newResult()
		func() {
			defer func() {
				if r := recover(); r != nil {
					res.Err = fmt.Sprintf("worker panic: %v", r)
				}
			}()
			runWorker(*prop, *tier, i, n, res)
		}()
		js, _ := json.Marshal(res)
		fmt.Println("WORKERRESULT " + string(js))
		return
	}
	run := report.NewRun(*prop, *tier, "model_checking")
	self, _ := os.Executable()
	const N = 16
	results := make([]*workerResult, N)
	var wg sync.WaitGroup
	for i := 0; i < N; i++ {
		wg.Add(1)
		go func(i int) {
			defer wg.Done()
			cmd := exec.Command(self, "--property", *prop, "--tier", *tier, "--worker", fmt.Sprintf("%d/%d", i, N))
			cmd.Env = append(os.Environ(), "GOMAXPROCS=1")
			out, err := cmd.CombinedOutput()
			r := newResult()
			ok := false
			for _, l := range strings.Split(string(out), "\n") {
				if strings.HasPrefix(l, "WORKERRESULT ") {
					ok = json.Unmarshal([]byte(l[len("WORKERRESULT "):]), r) == nil
				}
			}
			if !ok {
				tail := string(out)
				if len(tail) > 3000 {
					tail = tail[len(tail)-3000:]
				}
				r.Err = fmt.Sprintf("worker %d died: %v\n%s", i, err, tail)
			}
			results[i] = r
		}(i)
	}
	wg.Wait()
	total := newResult()
	for _, r := range results {
		if r.Err != "" {
			fmt.Println("HARNESS-ERROR", r.Err)
			os.Exit(2)
		}
		total.Cases += r.Cases
		total.Rejected += r.Rejected
		total.Nontrivial += r.Nontrivial
		total.Checks += r.Checks
		for k, v := range r.Shapes {
			total.Shapes[k] += v
		}
		for k, v := range r.Extra {
			total.Extra[k] += v
		}
		if len(total.Samples) < 6 {
			total.Samples = append(total.Samples, r.Samples...)
		}
		for k, v := range r.Viol {
			if o, ok := total.Viol[k]; ok {
				o.N += v.N
			} else {
				total.Viol[k] = v
			}
		}
	}
	var sigs []string
	for k := range total.Viol {
		sigs = append(sigs, k)
	}
	sort.Strings(sigs)
	for _, k := range sigs {
		v := total.Viol[k]
		var c interface{}
		json.Unmarshal(v.Case, &c)
		run.Violations = append(run.Violations, report.V{Property: *prop, Signature: v.Sig, Msg: v.Msg, Count: v.N,
			Replay: map[string]interface{}{"harness": "codec", "case": c, "message": v.Msg}})
	}
	cov := run.Coverage
	cov["evaluations"] = total.Cases
	cov["distinct_nontrivial"] = total.Nontrivial
	cov["states"] = total.Cases
	cov["transitions"] = total.Checks
	cov["traces_validated_against_impl"] = total.Cases
	cov["rejected_by_writer"] = total.Rejected
	cov["comparisons"] = total.Checks
	cov["shapes"] = total.Shapes
	cov["rule"] = ruleText(*prop)
	var ss []interface{}
	for _, s := range total.Samples {
		ss = append(ss, s)
	}
	if len(ss) > 8 {
		ss = ss[:8]
	}
	cov["samples"] = ss
	cov["exhaustive"] = true
	for k, v := range total.Extra {
		cov[k] = v
	}
	p := planFor(*prop, *tier)
	var cs []string
	for _, c := range p.cfgs {
		cs = append(cs, c.String())
	}
	cov["configurations"] = cs
	if *bindRep != "" {
		if b, err := os.ReadFile(*bindRep); err == nil {
			var br interface{}
			json.Unmarshal(b, &br)
			cov["binding"] = br
		}
	}
	run.Assumptions = []string{
		"exhaustive within the stated families (DESIGN.md 5.1); payload values come from small alphabets plus a SHA-256 keystream, table sizes stop at a few hundred records",
		"model/fmtspec (independent decoder) and model/refdb are trusted; they share no code with the repository",
	}
	_ = time.Now
	os.Exit(run.Finish())
}

func ruleText(prop string) string {
	switch prop {
	case "C01":
		return "every member of families F1 (all sorted sets of <=3 refs / <=3 log keys over rich alphabets), F2 (block structure: n records x name styles x refs/logs/both) and F3 (fill sweep: every length of a variable field) x configurations is written by the real Writer and read back by the real Reader from the start; the scan must equal the normalised input. Non-trivial = the table has >=2 blocks, or a deletion record, or an unpadded boundary, or a log section; cases are distinct inputs"
	case "C14":
		return "every table of the C01 enumeration, plus every table file produced by Add and by compaction in a breadth-first stack history search, is validated by the independent decoder model/fmtspec and its decoded records compared with the records given to the writer. Non-trivial as for C01"
	case "C02":
		return "for every table of F2/F3 x configurations every lookup key of every class (each key, its successor and predecessor strings, proper prefixes, empty, beyond-last; for logs each (name,u) with u in {index, index±1, 0, max}) is sought with SeekRef/SeekLog/ReadRef/ReadLogAt; the iteration after the seek must be the suffix of the normalised input with key >= the sought key. Non-trivial = table with >=2 blocks in the sought section"
	case "C03":
		return "every stack of 1..k tables over 3 ref names and 4 log keys, each key per table in {absent, value_i, deletion}, is read through the raw merged view and the stack view (tombstones suppressed) with every seek key class; results must equal the newest-wins overlay of the reference model. In addition stacks of MULTI-BLOCK tables: every ordered pair and (quick: a subset of the) triples of 9 table shapes over 24 ref names / 24 log keys at block size 128/256 (1 to 12 blocks per table: sought linearly or through an index), sought at every name, its successor string and the ends (thorough: every key class). Non-trivial = stack of >=2 tables in which at least one key occurs in two tables, or >=2 multi-block tables"
	case "C11":
		return "every table of family F4 (object ids sharing prefixes of length 0/1/19, 1..160 refs, min update index 0 and 5; plus the fan-in sweep: one object in a run of 1, 4, 7, ... adjacent refs, i.e. in every possible number of ref blocks) x {indexed, SkipIndexObjects, truncated position lists} x every object id (present, absent, same abbreviation) and every stack of <=3 small tables with re-pointed and deleted refs, raw and stack view: RefsFor must equal the filter of the reference model. Non-trivial = the queried id occurs in the table/stack"
	}
	return ""
}

func doReplay(prop, path string) int {
	b, err := os.ReadFile(path)
	if err != nil {
		fmt.Println("HARNESS-ERROR", err)
		return 2
	}
	var v struct {
		Property  string `json:"property"`
		Signature string `json:"signature"`
		Replay    struct {
			Case json.RawMessage `json:"case"`
		} `json:"replay"`
	}
	if err := json.Unmarshal(b, &v); err != nil {
		fmt.Println("HARNESS-ERROR", err)
		return 2
	}
	if prop == "" {
		prop = v.Property
	}
	res := newResult()
	if err := replayCase(prop, v.Replay.Case, res); err != nil {
		fmt.Println("HARNESS-ERROR", err)
		return 2
	}
	for k, x := range res.Viol {
		fmt.Printf("violation %s\n%s\n", k, x.Msg)
	}
	if _, ok := res.Viol[v.Signature]; ok {
		fmt.Printf("VIOLATION property=%s replay=%s\n", prop, path)
		return 1
	}
	if len(res.Viol) > 0 {
		fmt.Printf("VIOLATION property=%s replay=%s (different signature)\n", prop, path)
		return 1
	}
	fmt.Println("the recorded violation did not recur")
	return 0
}
