// Command cdiff decides C15: the Go and the C implementation in this repository are
// interchangeable on disk. Every table of the enumerated families is written by Go and read
// by both, written by C (cdriver/driver.c linked against /repo/c) and read by both - full
// scans, seeks and RefsFor - and short stack histories are executed by one implementation,
// continued by the other and read by both. The dumps must be identical.
package main

import (
	"bufio"
	"bytes"
	"encoding/hex"
	"encoding/json"
	"flag"
	"fmt"
	"io"
	"math"
	"os"
	"os/exec"
	"path/filepath"
	"sort"
	"strings"
	"sync"

	"github.com/google/reftable"

	"verif/internal/report"
	"verif/model/refdb"
	"verif/model/tablegen"
)

// ---------------------------------------------------------------- C driver

type cdriver struct {
	cmd *exec.Cmd
	in  io.WriteCloser
	out *bufio.Reader
}

func startDriver(bin string) (*cdriver, error) {
	cmd := exec.Command(bin)
	in, _ := cmd.StdinPipe()
	out, _ := cmd.StdoutPipe()
	cmd.Stderr = os.Stderr
	if err := cmd.Start(); err != nil {
		return nil, err
	}
	return &cdriver{cmd, in, bufio.NewReaderSize(out, 1<<20)}, nil
}

func (d *cdriver) line() (string, error) {
	s, err := d.out.ReadString('\n')
	return strings.TrimRight(s, "\n"), err
}

func hx(b []byte) string {
	if len(b) == 0 {
		return "-"
	}
	return hex.EncodeToString(b)
}

func refScript(r refdb.Ref) string {
	return fmt.Sprintf("r %s %d %d %s %s %s\n", hx([]byte(r.Name)), r.UpdateIndex, r.Kind, hx(r.Value), hx(r.Peeled), hx([]byte(r.Symref)))
}

func logScript(l refdb.Log, hs int) string {
	d := 0
	if l.Deletion {
		d = 1
	}
	return fmt.Sprintf("g %s %d %d %s %s %s %s %d %d %s\n", hx([]byte(l.Name)), l.UpdateIndex, d, hx(l.Old), hx(l.New), hx([]byte(l.Who)), hx([]byte(l.Email)), l.Time, l.TZ, hx([]byte(l.Message)))
}

func optString(c tablegen.Cfg) string {
	h := 1
	if c.SHA256 {
		h = 2
	}
	b := func(x bool) int {
		if x {
			return 1
		}
		return 0
	}
	return fmt.Sprintf("%d %d %d %d %d %d", h, b(c.Unaligned), c.BlockSize, b(c.SkipObj), c.Restart, b(c.ExactMsg))
}

// readUntilEnd collects a dump (everything up to END).
func (d *cdriver) readUntilEnd() ([]string, error) {
	var out []string
	for {
		l, err := d.line()
		if err != nil {
			return out, fmt.Errorf("C driver died: %v (after %d lines)", err, len(out))
		}
		if l == "END" {
			return out, nil
		}
		out = append(out, l)
	}
}

// ---------------------------------------------------------------- Go side dumps in the same format

func goRefLine(r *reftable.RefRecord) string {
	typ := 0
	v1, v2, sym := "-", "-", "-"
	switch {
	case len(r.Value) > 0 && len(r.TargetValue) > 0:
		typ, v1, v2 = 2, hx(r.Value), hx(r.TargetValue)
	case len(r.Value) > 0:
		typ, v1 = 1, hx(r.Value)
	case r.Target != "":
		typ, sym = 3, hx([]byte(r.Target))
	}
	return fmt.Sprintf("ref %s %d %d %s %s %s", hx([]byte(r.RefName)), r.UpdateIndex, typ, v1, v2, sym)
}

func goLogLine(l *reftable.LogRecord, hs int) string {
	if l.IsDeletion() {
		return fmt.Sprintf("log %s %d 1", hx([]byte(l.RefName)), l.UpdateIndex)
	}
	old, nw := l.Old, l.New
	if old == nil {
		old = make([]byte, hs)
	}
	if nw == nil {
		nw = make([]byte, hs)
	}
	return fmt.Sprintf("log %s %d 0 %s %s %s %s %d %d %s", hx([]byte(l.RefName)), l.UpdateIndex, hex.EncodeToString(old), hex.EncodeToString(nw), hx([]byte(l.Name)), hx([]byte(l.Email)), l.Time, l.TZOffset, hx([]byte(l.Message)))
}

func errCode(err error) int {
	if err != nil {
		return -1
	}
	return 0
}

func goDumpRefs(it *reftable.Iterator, out *[]string) {
	for {
		var r reftable.RefRecord
		ok, err := it.NextRef(&r)
		if err != nil {
			*out = append(*out, "ITERERR")
			return
		}
		if !ok {
			return
		}
		*out = append(*out, goRefLine(&r))
	}
}

func goDumpLogs(it *reftable.Iterator, hs int, out *[]string) {
	for {
		var l reftable.LogRecord
		ok, err := it.NextLog(&l)
		if err != nil {
			*out = append(*out, "ITERERR")
			return
		}
		if !ok {
			return
		}
		*out = append(*out, goLogLine(&l, hs))
	}
}

type query struct {
	Kind string // s l o
	Name string
	UI   uint64
	Oid  []byte
}

func (q query) script() string {
	switch q.Kind {
	case "s":
		return fmt.Sprintf("s %s\n", hx([]byte(q.Name)))
	case "l":
		return fmt.Sprintf("l %s %d\n", hx([]byte(q.Name)), q.UI)
	}
	return fmt.Sprintf("o %s\n", hx(q.Oid))
}

func goDumpTable(tab reftable.Table, hs int, qs []query, full bool) (out []string) {
	defer func() {
		if r := recover(); r != nil {
			out = append(out, fmt.Sprintf("GO-PANIC %v", r))
		}
	}()
	if full {
		it, err := tab.SeekRef("")
		out = append(out, fmt.Sprintf("Q refs %d", errCode(err)))
		if err == nil {
			goDumpRefs(it, &out)
		}
		it, err = tab.SeekLog("", math.MaxUint64)
		out = append(out, fmt.Sprintf("Q logs %d", errCode(err)))
		if err == nil {
			goDumpLogs(it, hs, &out)
		}
	}
	for i, q := range qs {
		switch q.Kind {
		case "s":
			it, err := tab.SeekRef(q.Name)
			out = append(out, fmt.Sprintf("Q %d %d", i, errCode(err)))
			if err == nil {
				goDumpRefs(it, &out)
			}
		case "l":
			it, err := tab.SeekLog(q.Name, q.UI)
			out = append(out, fmt.Sprintf("Q %d %d", i, errCode(err)))
			if err == nil {
				goDumpLogs(it, hs, &out)
			}
		case "o":
			it, err := tab.RefsFor(q.Oid)
			out = append(out, fmt.Sprintf("Q %d %d", i, errCode(err)))
			if err == nil {
				goDumpRefs(it, &out)
			}
		}
	}
	return out
}

// normC normalises the C dump: error codes to -1/0.
func normC(lines []string) []string {
	var out []string
	for _, l := range lines {
		if strings.HasPrefix(l, "Q ") {
			f := strings.Fields(l)
			if len(f) == 3 && strings.HasPrefix(f[2], "-") {
				f[2] = "-1"
			}
			l = strings.Join(f, " ")
		}
		if strings.HasPrefix(l, "ITERERR") {
			l = "ITERERR"
		}
		out = append(out, l)
	}
	return out
}

func firstDiff(a, b []string) string {
	for i := 0; i < len(a) || i < len(b); i++ {
		x, y := "<end>", "<end>"
		if i < len(a) {
			x = a[i]
		}
		if i < len(b) {
			y = b[i]
		}
		if x != y {
			return fmt.Sprintf("line %d: Go has %q, C has %q (Go %d lines, C %d lines)", i, x, y, len(a), len(b))
		}
	}
	return ""
}

// ---------------------------------------------------------------- worker

type viol struct {
	Sig  string      `json:"sig"`
	Msg  string      `json:"msg"`
	Case interface{} `json:"case"`
	N    int         `json:"n"`
}

type result struct {
	Tables    int              `json:"tables"`
	GoWritten int              `json:"go_written"`
	CWritten  int              `json:"c_written"`
	CRejected int              `json:"c_rejected"`
	GoRej     int              `json:"go_rejected"`
	Queries   int              `json:"queries"`
	Stacks    int              `json:"stacks"`
	Viol      map[string]*viol `json:"viol"`
	Samples   []string         `json:"samples"`
	Err       string           `json:"err,omitempty"`
}

func (r *result) violate(sig, msg string, c interface{}) {
	if v, ok := r.Viol[sig]; ok {
		v.N++
		return
	}
	r.Viol[sig] = &viol{sig, msg, c, 1}
}

func toConfig(c tablegen.Cfg) reftable.Config {
	cfg := reftable.Config{Unaligned: c.Unaligned, BlockSize: c.BlockSize, SkipIndexObjects: c.SkipObj, RestartInterval: c.Restart, ExactLogMessage: c.ExactMsg}
	if c.SHA256 {
		cfg.HashID = reftable.SHA256ID
	}
	return cfg
}

func goWrite(c *tablegen.Case) (data []byte, rejected bool) {
	defer func() {
		if r := recover(); r != nil {
			data, rejected = nil, true
		}
	}()
	cfg := toConfig(c.Cfg)
	var buf bytes.Buffer
	w, err := reftable.NewWriter(&buf, &cfg)
	if err != nil {
		return nil, true
	}
	w.SetLimits(c.Min, c.Max)
	for _, r := range c.Refs {
		rec := reftable.RefRecord{RefName: r.Name, UpdateIndex: r.UpdateIndex, Value: r.Value, TargetValue: r.Peeled, Target: r.Symref}
		if w.AddRef(&rec) != nil {
			return nil, true
		}
	}
	for _, l := range c.Logs {
		rec := reftable.LogRecord{RefName: l.Name, UpdateIndex: l.UpdateIndex}
		if !l.Deletion {
			rec.Old, rec.New, rec.Name, rec.Email, rec.Time, rec.TZOffset, rec.Message = l.Old, l.New, l.Who, l.Email, l.Time, l.TZ, l.Message
		}
		if w.AddLog(&rec) != nil {
			return nil, true
		}
	}
	if w.Close() != nil {
		return nil, true
	}
	return buf.Bytes(), false
}

func queriesFor(c *tablegen.Case) []query {
	var qs []query
	names := map[string]bool{}
	add := func(k string) {
		if !names[k] && !strings.Contains(k, "\x00") {
			names[k] = true
			qs = append(qs, query{Kind: "s", Name: k})
		}
	}
	pick := func(n int) []int {
		if n == 0 {
			return nil
		}
		return []int{0, n / 2, n - 1}
	}
	for _, i := range pick(len(c.Refs)) {
		k := c.Refs[i].Name
		add(k)
		add(k + "\x01")
		if len(k) > 1 {
			add(k[:len(k)-1])
		}
	}
	add("zzzz~")
	for _, i := range pick(len(c.Logs)) {
		l := c.Logs[i]
		for _, u := range []uint64{l.UpdateIndex, l.UpdateIndex + 1, 0, math.MaxUint64} {
			qs = append(qs, query{Kind: "l", Name: l.Name, UI: u})
		}
	}
	if c.Family == "F4" {
		for _, o := range tablegen.F4Oids(c) {
			qs = append(qs, query{Kind: "o", Oid: o})
		}
	} else {
		for _, i := range pick(len(c.Refs)) {
			if v := c.Refs[i].Value; v != nil {
				qs = append(qs, query{Kind: "o", Oid: v})
				break
			}
		}
	}
	return qs
}

type caseJSON struct {
	Family string
	Cfg    tablegen.Cfg
	Min    uint64
	Max    uint64
	Note   string
	Refs   []refdb.Ref
	Logs   []refdb.Log
}

func nulFree(c *tablegen.Case) bool {
	for _, r := range c.Refs {
		if strings.Contains(r.Name, "\x00") || strings.Contains(r.Symref, "\x00") {
			return false
		}
	}
	for _, l := range c.Logs {
		if strings.Contains(l.Name+l.Who+l.Email+l.Message, "\x00") {
			return false
		}
	}
	return true
}

// compareReads opens path with both implementations and compares the dumps.
func compareReads(d *cdriver, path string, c *tablegen.Case, writer string, res *result) error {
	hs := c.Cfg.HashSize()
	qs := queriesFor(c)
	res.Queries += len(qs) + 2
	var sb strings.Builder
	fmt.Fprintf(&sb, "R %s %d\n", path, len(qs))
	for _, q := range qs {
		sb.WriteString(q.script())
	}
	io.WriteString(d.in, sb.String())
	open, err := d.line()
	if err != nil {
		return fmt.Errorf("C driver died on %s", c.ID())
	}
	cdump, err := d.readUntilEnd()
	if err != nil {
		return err
	}
	cj := caseJSON{c.Family, c.Cfg, c.Min, c.Max, c.Note, c.Refs, c.Logs}
	data, _ := os.ReadFile(path)
	var godump []string
	rd, gerr := func() (rd *reftable.Reader, err error) {
		defer func() {
			if r := recover(); r != nil {
				err = fmt.Errorf("panic: %v", r)
			}
		}()
		return reftable.NewReader(&reftable.ByteBlockSource{Source: data}, "t")
	}()
	copen := strings.HasPrefix(open, "OPEN 0")
	if (gerr == nil) != copen {
		res.violate("interop:open-disagrees/written-by-"+writer, fmt.Sprintf("%s written by %s: Go NewReader err=%v, C says %q", c.ID(), writer, gerr, open), cj)
		return nil
	}
	if gerr != nil {
		return nil
	}
	godump = goDumpTable(rd, hs, qs, true)
	if diff := firstDiff(godump, normC(cdump)); diff != "" {
		kind := "records-differ"
		if strings.Contains(diff, "Q ") {
			kind = "status-differs"
		}
		sect := "scan"
		// which query?
		for i := range godump {
			if i < len(cdump) && godump[i] != normC(cdump)[i] {
				break
			}
			if strings.HasPrefix(godump[i], "Q ") {
				f := strings.Fields(godump[i])
				sect = f[1]
				if sect != "refs" && sect != "logs" {
					var qi int
					fmt.Sscan(f[1], &qi)
					sect = map[string]string{"s": "seekref", "l": "seeklog", "o": "refsfor"}[qs[qi].Kind]
				}
			}
		}
		res.violate("interop:"+kind+"@"+sect+"/written-by-"+writer, fmt.Sprintf("%s written by %s: the two readers disagree: %s", c.ID(), writer, diff), cj)
	}
	return nil
}

func checkCase(d *cdriver, dir string, c *tablegen.Case, res *result) error {
	if !nulFree(c) {
		return nil
	}
	res.Tables++
	hs := c.Cfg.HashSize()
	// Go writes
	data, rej := goWrite(c)
	gpath := filepath.Join(dir, "go.ref")
	if rej {
		res.GoRej++
	} else {
		res.GoWritten++
		os.WriteFile(gpath, data, 0o644)
		if err := compareReads(d, gpath, c, "go", res); err != nil {
			return err
		}
	}
	// C writes
	cpath := filepath.Join(dir, "c.ref")
	var sb strings.Builder
	fmt.Fprintf(&sb, "W %s %s %d %d %d\n", cpath, optString(c.Cfg), c.Min, c.Max, len(c.Refs)+len(c.Logs))
	for _, r := range c.Refs {
		sb.WriteString(refScript(r))
	}
	for _, l := range c.Logs {
		sb.WriteString(logScript(l, hs))
	}
	io.WriteString(d.in, sb.String())
	st, err := d.line()
	if err != nil {
		return fmt.Errorf("C driver died writing %s", c.ID())
	}
	if !strings.HasPrefix(st, "OK") {
		res.CRejected++
		if !rej {
			// one writer accepts what the other refuses: recorded, not a read disagreement
			res.Samples = appendCap(res.Samples, fmt.Sprintf("C writer refused (%s) what Go accepted: %s", st, c.ID()), 3)
		}
		return nil
	}
	res.CWritten++
	return compareReads(d, cpath, c, "c", res)
}

func appendCap(s []string, x string, n int) []string {
	if len(s) < n {
		return append(s, x)
	}
	return s
}

// ---------------------------------------------------------------- stacks

type sop struct {
	By   string // go | c
	Kind string // set del sym tag log dellog compact
	Name string
}

type stackCase struct {
	SHA256 bool
	Ops    []sop
}

func stackTxn(step int, o sop, hs int, logUI uint64) ([]refdb.Ref, []refdb.Log) {
	switch o.Kind {
	case "set":
		return []refdb.Ref{{Name: o.Name, Kind: 1, Value: tablegen.Oid(fmt.Sprint("v", step), hs)}}, nil
	case "del":
		return []refdb.Ref{{Name: o.Name, Kind: 0}}, nil
	case "sym":
		return []refdb.Ref{{Name: o.Name, Kind: 3, Symref: "refs/b"}}, nil
	case "tag":
		return []refdb.Ref{{Name: o.Name, Kind: 2, Value: tablegen.Oid(fmt.Sprint("t", step), hs), Peeled: tablegen.Oid(fmt.Sprint("p", step), hs)}}, nil
	case "log":
		return nil, []refdb.Log{{Name: o.Name, Old: tablegen.Oid("o", hs), New: tablegen.Oid(fmt.Sprint("n", step), hs), Who: "w", Email: "e@x", Time: uint64(1000 + step), TZ: 60, Message: fmt.Sprintf("step %d\n", step)}}
	case "dellog":
		return nil, []refdb.Log{{Name: o.Name, UpdateIndex: logUI, Deletion: true}}
	}
	return nil, nil
}

func runStack(d *cdriver, base string, sc *stackCase, idx int, res *result) error {
	dir := filepath.Join(base, fmt.Sprintf("st%d", idx))
	os.RemoveAll(dir)
	os.MkdirAll(dir, 0o755)
	defer os.RemoveAll(dir)
	res.Stacks++
	cfg := reftable.Config{}
	hs, hflag := 20, 1
	if sc.SHA256 {
		cfg.HashID = reftable.SHA256ID
		hs, hflag = 32, 2
	}
	var lastLog = map[string]uint64{}
	ui := uint64(0)
	fail := func(sig, msg string) {
		res.violate(sig, fmt.Sprintf("stack history %v: %s", sc.Ops, msg), sc)
	}
	for step, o := range sc.Ops {
		if o.Kind == "compact" {
			if o.By == "go" {
				st, err := reftable.NewStack(dir, cfg)
				if err != nil {
					fail("interop:go-cannot-open-stack@step", fmt.Sprintf("step %d: Go NewStack: %v", step, err))
					return nil
				}
				err = st.CompactAll(nil)
				st.Close()
				if err != nil {
					fail("interop:go-compaction-fails", fmt.Sprintf("step %d: %v", step, err))
					return nil
				}
			} else {
				fmt.Fprintf(d.in, "C %s %d\n", dir, hflag)
				l, err := d.line()
				if err != nil {
					return fmt.Errorf("C driver died")
				}
				if !strings.HasPrefix(l, "OK") {
					fail("interop:c-compaction-fails", fmt.Sprintf("step %d: C compact_all on a stack written so far by %v: %s", step, sc.Ops[:step], l))
					return nil
				}
			}
			continue
		}
		if o.Kind == "dellog" && lastLog[o.Name] == 0 {
			return nil // not applicable
		}
		refs, logs := stackTxn(step, o, hs, lastLog[o.Name])
		ui++
		if o.Kind == "log" {
			lastLog[o.Name] = ui
		}
		if o.By == "go" {
			st, err := reftable.NewStack(dir, cfg)
			if err != nil {
				fail("interop:go-cannot-open-stack@step", fmt.Sprintf("step %d: Go NewStack on a stack written so far by %v: %v", step, sc.Ops[:step], err))
				return nil
			}
			st.VerifSetAutoCompact(false)
			err = st.Add(func(w *reftable.Writer) error {
				u := st.NextUpdateIndex()
				w.SetLimits(u, u)
				for _, r := range refs {
					rec := reftable.RefRecord{RefName: r.Name, UpdateIndex: u, Value: r.Value, TargetValue: r.Peeled, Target: r.Symref}
					if err := w.AddRef(&rec); err != nil {
						return err
					}
				}
				for _, l := range logs {
					rec := reftable.LogRecord{RefName: l.Name, UpdateIndex: u}
					if l.Deletion {
						rec.UpdateIndex = l.UpdateIndex
					} else {
						rec.Old, rec.New, rec.Name, rec.Email, rec.Time, rec.TZOffset, rec.Message = l.Old, l.New, l.Who, l.Email, l.Time, l.TZ, l.Message
					}
					if err := w.AddLog(&rec); err != nil {
						return err
					}
				}
				return nil
			})
			st.Close()
			if err != nil {
				fail("interop:go-add-fails", fmt.Sprintf("step %d: Go Add on a stack written so far by %v: %v", step, sc.Ops[:step], err))
				return nil
			}
		} else {
			var sb strings.Builder
			fmt.Fprintf(&sb, "A %s %d 0 0 0 0 0 0 %d\n", dir, hflag, len(refs)+len(logs))
			for _, r := range refs {
				sb.WriteString(refScript(r))
			}
			for _, l := range logs {
				sb.WriteString(logScript(l, hs))
			}
			io.WriteString(d.in, sb.String())
			l, err := d.line()
			if err != nil {
				return fmt.Errorf("C driver died")
			}
			if !strings.HasPrefix(l, "OK") {
				fail("interop:c-add-fails", fmt.Sprintf("step %d: C stack_add on a stack written so far by %v: %s", step, sc.Ops[:step], l))
				return nil
			}
		}
	}
	// both read
	fmt.Fprintf(d.in, "D %s %d\n", dir, hflag)
	open, err := d.line()
	if err != nil {
		return fmt.Errorf("C driver died")
	}
	cdump, err := d.readUntilEnd()
	if err != nil {
		return err
	}
	st, gerr := reftable.NewStack(dir, cfg)
	if (gerr == nil) != strings.HasPrefix(open, "OPEN 0") {
		fail("interop:stack-open-disagrees", fmt.Sprintf("Go NewStack err=%v, C says %q", gerr, open))
		return nil
	}
	if gerr != nil {
		return nil
	}
	godump := goDumpTable(st.Merged(), hs, nil, true)
	st.Close()
	if diff := firstDiff(godump, normC(cdump)); diff != "" {
		fail("interop:stack-views-differ", "the two implementations read different records from the same directory: "+diff)
	}
	return nil
}

func stackCases(quick bool) []*stackCase {
	txn := []sop{{Kind: "set", Name: "refs/a"}, {Kind: "del", Name: "refs/a"}, {Kind: "log", Name: "refs/a"}, {Kind: "tag", Name: "refs/b"}, {Kind: "dellog", Name: "refs/a"}, {Kind: "sym", Name: "refs/a"}}
	var out []*stackCase
	depth := 3
	var rec func(cur []sop)
	rec = func(cur []sop) {
		if len(cur) > 0 {
			for _, sha := range []bool{false, true} {
				if sha && quick && len(cur) != 2 {
					continue
				}
				// who executes: all Go then C reads; all C then Go reads; alternate; each with an optional final compaction by either
				for _, pat := range []string{"go", "c", "alt", "alt2"} {
					for _, comp := range []string{"", "go", "c"} {
						if quick && pat == "alt2" {
							continue
						}
						ops := make([]sop, len(cur))
						for i, o := range cur {
							o.By = pat
							if pat == "alt" {
								o.By = []string{"go", "c"}[i%2]
							} else if pat == "alt2" {
								o.By = []string{"c", "go"}[i%2]
							}
							ops[i] = o
						}
						if comp != "" {
							ops = append(ops, sop{By: comp, Kind: "compact"})
						}
						out = append(out, &stackCase{SHA256: sha, Ops: ops})
					}
				}
			}
		}
		if len(cur) == depth {
			return
		}
		for _, t := range txn {
			rec(append(append([]sop{}, cur...), t))
		}
	}
	rec(nil)
	return out
}

// ---------------------------------------------------------------- main

func main() {
	prop := flag.String("property", "C15", "")
	tier := flag.String("tier", "quick", "")
	worker := flag.String("worker", "", "i/n")
	cbin := flag.String("cbin", "", "")
	replay := flag.String("replay", "", "")
	bindRep := flag.String("bindreport", "", "")
	flag.Parse()
	_ = bindRep
	quick := *tier != "thorough"
	scratch := os.Getenv("VERIF_SCRATCH")
	if scratch == "" {
		scratch, _ = os.MkdirTemp("/var/tmp", "cdiff-")
		defer os.RemoveAll(scratch)
	}
	repo := os.Getenv("VERIF_REPO")
	if repo == "" {
		repo = "/repo"
	}
	verif := os.Getenv("VERIF_DIR")
	if verif == "" {
		verif = "/verif"
	}
	if *cbin == "" {
		// build the C side from /repo's current working tree
		*cbin = filepath.Join(scratch, "cdriver")
		var srcs []string
		ents, _ := os.ReadDir(filepath.Join(repo, "c"))
		for _, e := range ents {
			n := e.Name()
			if strings.HasSuffix(n, ".c") && !strings.HasSuffix(n, "_test.c") && n != "test_framework.c" && n != "dump.c" {
				srcs = append(srcs, filepath.Join(repo, "c", n))
			}
		}
		args := append([]string{"-O1", "-w", "-I" + filepath.Join(repo, "c"), "-I" + filepath.Join(repo, "c", "include"), "-o", *cbin, filepath.Join(verif, "cdriver", "driver.c")}, srcs...)
		args = append(args, "-lz")
		if out, err := exec.Command("gcc", args...).CombinedOutput(); err != nil {
			fmt.Printf("HARNESS-ERROR building the C implementation failed: %v\n%s\n", err, out)
			os.Exit(2)
		}
	}
	cfgsFor := func() []tablegen.Cfg {
		if quick {
			return []tablegen.Cfg{{}, {BlockSize: 128}, {BlockSize: 96, Unaligned: true}, {SHA256: true, BlockSize: 256}, {BlockSize: 256, SkipObj: true, Restart: 2}, {ExactMsg: true, BlockSize: 512, Unaligned: true}}
		}
		return tablegen.QuickCfgs()
	}
	runAll := func(wi, wn int, res *result) error {
		dir := filepath.Join(scratch, fmt.Sprintf("w%d", wi))
		os.MkdirAll(dir, 0o755)
		defer os.RemoveAll(dir)
		d, err := startDriver(*cbin)
		if err != nil {
			return err
		}
		defer func() { io.WriteString(d.in, "Q\n"); d.in.Close(); d.cmd.Wait() }()
		unit := 0
		var ferr error
		yield := func(c *tablegen.Case) {
			unit++
			if ferr != nil || (unit-1)%wn != wi {
				return
			}
			if e := checkCase(d, dir, c, res); e != nil {
				// the C process died on this input: record the case, restart the driver, go on
				res.violate("interop:c-side-crashed/"+c.Family, fmt.Sprintf("%v while handling %s", e, c.ID()), caseJSON{c.Family, c.Cfg, c.Min, c.Max, c.Note, c.Refs, c.Logs})
				d.in.Close()
				d.cmd.Wait()
				nd, err := startDriver(*cbin)
				if err != nil {
					ferr = err
					return
				}
				*d = *nd
				return
			}
			if len(res.Samples) < 1 && len(c.Refs) > 1 && len(c.Logs) > 1 {
				res.Samples = append(res.Samples, "table: "+c.ID())
			}
		}
		for ci, cfg := range cfgsFor() {
			stride := 12
			if !quick {
				stride = 3
			}
			if ci == 0 {
				stride = stride / 3
			}
			tablegen.F1(cfg, 5, 9, stride, yield)
			tablegen.F2(cfg, tablegen.F2Counts, yield)
			if cfg.BlockSize > 0 && cfg.BlockSize <= 256 {
				tablegen.F3(cfg, int(cfg.BlockSize)+40, yield)
			}
			tablegen.F4(cfg, yield)
		}
		if ferr != nil {
			return ferr
		}
		for i, sc := range stackCases(quick) {
			if i%wn != wi {
				continue
			}
			if e := runStack(d, dir, sc, i, res); e != nil {
				res.violate("interop:c-side-crashed/stack", fmt.Sprintf("%v while handling stack history %v", e, sc.Ops), sc)
				d.in.Close()
				d.cmd.Wait()
				nd, err := startDriver(*cbin)
				if err != nil {
					return err
				}
				*d = *nd
			}
		}
		return nil
	}
	if *replay != "" {
		b, _ := os.ReadFile(*replay)
		var v struct {
			Signature string `json:"signature"`
			Replay    struct {
				Case json.RawMessage `json:"case"`
			} `json:"replay"`
		}
		json.Unmarshal(b, &v)
		res := &result{Viol: map[string]*viol{}}
		d, err := startDriver(*cbin)
		if err != nil {
			fmt.Println("HARNESS-ERROR", err)
			os.Exit(2)
		}
		dir := filepath.Join(scratch, "replay")
		os.MkdirAll(dir, 0o755)
		var sc stackCase
		var cj caseJSON
		if json.Unmarshal(v.Replay.Case, &sc) == nil && len(sc.Ops) > 0 {
			runStack(d, dir, &sc, 0, res)
		} else if json.Unmarshal(v.Replay.Case, &cj) == nil {
			checkCase(d, dir, &tablegen.Case{Family: cj.Family, Cfg: cj.Cfg, Min: cj.Min, Max: cj.Max, Refs: cj.Refs, Logs: cj.Logs, Note: cj.Note}, res)
		}
		for k, x := range res.Viol {
			fmt.Printf("violation %s\n%s\n", k, x.Msg)
		}
		if len(res.Viol) > 0 {
			fmt.Printf("VIOLATION property=%s replay=%s\n", *prop, *replay)
			os.Exit(1)
		}
		fmt.Println("the recorded violation did not recur")
		os.Exit(0)
	}
	if *worker != "" {
		var wi, wn int
		fmt.Sscanf(*worker, "%d/%d", &wi, &wn)
		res := &result{Viol: map[string]*viol{}}
		if err := runAll(wi, wn, res); err != nil {
			res.Err = err.Error()
		}
		js, _ := json.Marshal(res)
		fmt.Println("WORKERRESULT " + string(js))
		return
	}
	run := report.NewRun(*prop, *tier, "translation_validation")
	self, _ := os.Executable()
	const W = 16
	results := make([]*result, W)
	var wg sync.WaitGroup
	for i := 0; i < W; i++ {
		wg.Add(1)
		go func(i int) {
			defer wg.Done()
			cmd := exec.Command(self, "--property", *prop, "--tier", *tier, "--worker", fmt.Sprintf("%d/%d", i, W), "--cbin", *cbin)
			cmd.Env = append(os.Environ(), "GOMAXPROCS=1", "VERIF_SCRATCH="+scratch)
			out, err := cmd.CombinedOutput()
			r := &result{Viol: map[string]*viol{}}
			ok := false
			for _, l := range strings.Split(string(out), "\n") {
				if strings.HasPrefix(l, "WORKERRESULT ") {
					ok = json.Unmarshal([]byte(l[len("WORKERRESULT "):]), r) == nil
				}
			}
			if !ok {
				tail := string(out)
				if len(tail) > 3000 {
					tail = tail[len(tail)-3000:]
				}
				r.Err = fmt.Sprintf("worker %d died: %v\n%s", i, err, tail)
			}
			results[i] = r
		}(i)
	}
	wg.Wait()
	tot := &result{Viol: map[string]*viol{}}
	for _, r := range results {
		if r.Err != "" {
			// a crash of the C side on some input is itself a finding, attributed below
			tot.violate("interop:c-side-crashed", r.Err, nil)
			continue
		}
		tot.Tables += r.Tables
		tot.GoWritten += r.GoWritten
		tot.CWritten += r.CWritten
		tot.CRejected += r.CRejected
		tot.GoRej += r.GoRej
		tot.Queries += r.Queries
		tot.Stacks += r.Stacks
		tot.Samples = append(tot.Samples, r.Samples...)
		for k, v := range r.Viol {
			if o, ok := tot.Viol[k]; ok {
				o.N += v.N
			} else {
				tot.Viol[k] = v
			}
		}
	}
	var sigs []string
	for k := range tot.Viol {
		sigs = append(sigs, k)
	}
	sort.Strings(sigs)
	for _, k := range sigs {
		v := tot.Viol[k]
		run.Violations = append(run.Violations, report.V{Property: *prop, Signature: v.Sig, Msg: v.Msg, Count: v.N, Replay: map[string]interface{}{"harness": "cdiff", "case": v.Case, "message": v.Msg}})
	}
	cov := run.Coverage
	cov["programs"] = tot.GoWritten + tot.CWritten + tot.Stacks
	cov["disagreements_checked"] = tot.GoWritten + tot.CWritten + tot.Stacks
	cov["evaluations"] = tot.GoWritten + tot.CWritten + tot.Stacks
	cov["distinct_nontrivial"] = tot.GoWritten + tot.CWritten + tot.Stacks
	cov["tables_enumerated"] = tot.Tables
	cov["tables_written_by_go_read_by_both"] = tot.GoWritten
	cov["tables_written_by_c_read_by_both"] = tot.CWritten
	cov["rejected_by_c_writer"] = tot.CRejected
	cov["rejected_by_go_writer"] = tot.GoRej
	cov["read_queries_compared"] = tot.Queries
	cov["stack_histories"] = tot.Stacks
	var ss []interface{}
	for i, s := range tot.Samples {
		if i < 6 {
			ss = append(ss, s)
		}
	}
	if len(ss) == 0 {
		ss = append(ss, "no sample recorded")
	}
	cov["samples"] = ss
	cov["exhaustive"] = true
	cov["rule"] = "each program is one table (families F1 strided, F2, F3, F4 x write configurations both implementations support, NUL-free names) written by Go and by C, or one stack history (<=3 transactions from {set, delete, log, peeled tag, delete log, symref} executed by Go, by C or alternating, with an optional final compaction by either); every program is read by BOTH implementations (full ref and log scans, seeks around the first/middle/last key, log seeks at several indices, RefsFor) and the dumps must be byte-identical"
	run.Assumptions = []string{
		"the C library is compiled from /repo/c with gcc and the system zlib; cdriver/driver.c (the C side of the protocol) is trusted",
		"restricted to options both implementations expose and to NUL-free strings; error statuses are compared as succeed/fail",
	}
	os.Exit(run.Finish())
}
