// Command sharedread decides C19: goroutines sharing one Reader or one Merged view.
//
//	(i)   every interleaving (at ReadBlock / API-call granularity, explored exhaustively under
//	      the controlled scheduler of engine E1) of pairs and triples of read programs must give
//	      each goroutine exactly the results it gets when run alone;
//	(ii)  frozen-state invariant: when the package uses no synchronisation primitives, a deep
//	      hash of the shared Reader/Merged graph and of all package-level variables must not
//	      change during any read step - an unsynchronised write by a read path is a data race as
//	      soon as two goroutines run it;
//	(iii) supplementary and NOT part of the exhaustive claim: the same bodies free-running under
//	      the Go race detector (a report is always a real race; silence proves nothing).
package main

import (
	"bytes"
	"encoding/json"
	"flag"
	"fmt"
	"math"
	"os"
	"os/exec"
	"sort"
	"strings"
	"sync"
	"time"

	"github.com/google/reftable"
	"github.com/google/reftable/zz_verif/rt"

	"verif/engine/mc"
	"verif/internal/deephash"
	"verif/internal/hx"
	"verif/internal/report"
	"verif/model/refdb"
	"verif/model/tablegen"
)

// ---------------------------------------------------------------- fixtures

type fixture struct {
	Name  string
	Data  [][]byte // one table, or three for a merged view
	Cfg   tablegen.Cfg
	File  bool // file-backed over the in-memory directory
	names []string
	oid   []byte
	hs    int
}

func toConfig(c tablegen.Cfg) reftable.Config {
	cfg := reftable.Config{Unaligned: c.Unaligned, BlockSize: c.BlockSize, SkipIndexObjects: c.SkipObj, RestartInterval: c.Restart}
	if c.SHA256 {
		cfg.HashID = reftable.SHA256ID
	}
	return cfg
}

func writeTable(cfg tablegen.Cfg, min, max uint64, refs []refdb.Ref, logs []refdb.Log) []byte {
	c := toConfig(cfg)
	var buf bytes.Buffer
	w, err := reftable.NewWriter(&buf, &c)
	if err != nil {
		panic(err)
	}
	w.SetLimits(min, max)
	for _, r := range refs {
		rec := reftable.RefRecord{RefName: r.Name, UpdateIndex: r.UpdateIndex, Value: r.Value, TargetValue: r.Peeled, Target: r.Symref}
		if err := w.AddRef(&rec); err != nil {
			panic(err)
		}
	}
	for _, l := range logs {
		rec := reftable.LogRecord{RefName: l.Name, UpdateIndex: l.UpdateIndex, Old: l.Old, New: l.New, Name: l.Who, Email: l.Email, Time: l.Time, TZOffset: l.TZ, Message: l.Message}
		if err := w.AddLog(&rec); err != nil {
			panic(err)
		}
	}
	if err := w.Close(); err != nil {
		panic(err)
	}
	return buf.Bytes()
}

// mkTable builds a table of n refs and n log entries. With tag "big" the log messages are
// incompressible, so that log blocks deflate to more than the block size (the reader's retry path).
func mkTable(cfg tablegen.Cfg, n int, ui uint64, tag string) ([]byte, []string, []byte) {
	return mkTableW(cfg, n, ui, tag, 3, 1)
}

// mkTableW: names carry a width-digit counter; only every stride-th ref has a log entry, and the
// shared object id / peeled pattern repeats with period 4*stride and 5*stride.
func mkTableW(cfg tablegen.Cfg, n int, ui uint64, tag string, width, stride int) ([]byte, []string, []byte) {
	hs := cfg.HashSize()
	var refs []refdb.Ref
	var logs []refdb.Log
	var names []string
	shared := tablegen.Oid("shared", hs)
	for i := 0; i < n; i++ {
		nm := fmt.Sprintf("refs/heads/b%0*d", width, i)
		names = append(names, nm)
		r := refdb.Ref{Name: nm, UpdateIndex: ui, Kind: 1, Value: tablegen.Oid(tag+nm, hs)}
		if i%(4*stride) == 1 {
			r.Value = shared
		}
		if i%(5*stride) == 2 {
			r.Kind, r.Peeled = 2, shared
		}
		refs = append(refs, r)
		msg := tag + " update\n"
		if tag == "big" {
			msg = tablegen.Keystream(nm, 60) + "\n"
		}
		if i%stride == 0 || i < 4 {
			logs = append(logs, refdb.Log{Name: nm, UpdateIndex: ui, Old: tablegen.Oid("o", hs), New: tablegen.Oid(tag+"n"+nm, hs), Who: "w", Email: "e", Time: 100, TZ: 0, Message: msg})
		}
	}
	return writeTable(cfg, ui, ui, refs, logs), names, shared
}

func fixtures() []*fixture {
	var out []*fixture
	for _, f := range []struct {
		name string
		cfg  tablegen.Cfg
		file bool
	}{
		{"reader/bs128", tablegen.Cfg{BlockSize: 128}, false},
		{"reader/unaligned96", tablegen.Cfg{BlockSize: 96, Unaligned: true}, false},
		{"reader/file-backed-s256", tablegen.Cfg{BlockSize: 256, SHA256: true}, true},
		{"reader/oversize-log-blocks", tablegen.Cfg{BlockSize: 192}, false},
	} {
		tag := "t"
		if strings.Contains(f.name, "oversize") {
			tag = "big"
		}
		d, names, oid := mkTable(f.cfg, 14, 3, tag)
		out = append(out, &fixture{Name: f.name, Data: [][]byte{d}, Cfg: f.cfg, File: f.file, names: names, oid: oid, hs: f.cfg.HashSize()})
	}
	{
		// three 128 KiB ref blocks behind a file: reads above 64 KiB, several blocks apart
		c := tablegen.Cfg{BlockSize: 1 << 17}
		d, names, oid := mkTableW(c, 12000, 3, "t", 5, 200)
		out = append(out, &fixture{Name: "reader/file-backed-128k-blocks", Data: [][]byte{d}, Cfg: c, File: true, names: names, oid: oid, hs: 20})
	}
	cfg := tablegen.Cfg{BlockSize: 128}
	var data [][]byte
	var names []string
	var oid []byte
	for i := 0; i < 3; i++ {
		d, n, o := mkTable(cfg, 6+3*i, uint64(i+1), fmt.Sprintf("m%d", i))
		data = append(data, d)
		names, oid = n, o
	}
	out = append(out, &fixture{Name: "merged/3-tables", Data: data, Cfg: cfg, names: names, oid: oid, hs: 20})
	return out
}

// ---------------------------------------------------------------- shared object under the scheduler

type yieldSource struct {
	w     *mc.World
	inner reftable.BlockSource
	name  string
}

func (s *yieldSource) Size() uint64 { return s.inner.Size() }
func (s *yieldSource) Close() error { return s.inner.Close() }
func (s *yieldSource) ReadBlock(off uint64, sz int) ([]byte, error) {
	if s.w != nil {
		s.w.Yield("readblock", fmt.Sprintf("%s@%d", s.name, off))
	}
	return s.inner.ReadBlock(off, sz)
}

type shared struct {
	tab     reftable.Table
	readers []*reftable.Reader
	merged  *reftable.Merged
}

func (f *fixture) open(w *mc.World) (*shared, error) {
	sh := &shared{}
	for i, d := range f.Data {
		var src reftable.BlockSource
		if f.File && w != nil {
			name := fmt.Sprintf("/d/t%d.ref", i)
			bs, err := reftable.NewFileBlockSource(name)
			if err != nil {
				return nil, err
			}
			src = bs // ReadAt on the in-memory directory is the scheduling point
		} else {
			src = &yieldSource{w: w, inner: &reftable.ByteBlockSource{Source: d}, name: fmt.Sprintf("t%d", i)}
		}
		rd, err := reftable.NewReader(src, fmt.Sprintf("t%d", i))
		if err != nil {
			return nil, err
		}
		sh.readers = append(sh.readers, rd)
	}
	if len(sh.readers) == 1 {
		sh.tab = sh.readers[0]
		return sh, nil
	}
	var tabs []reftable.Table
	for _, r := range sh.readers {
		tabs = append(tabs, r)
	}
	hid := reftable.SHA1ID
	if f.Cfg.SHA256 {
		hid = reftable.SHA256ID
	}
	m, err := reftable.VerifNewMerged(tabs, hid, true)
	if err != nil {
		return nil, err
	}
	sh.merged = m
	sh.tab = m
	return sh, nil
}

func (sh *shared) hash() uint64 {
	if sh.merged != nil {
		return deephash.Of(sh.merged, reftable.VerifGlobals())
	}
	return deephash.Of(sh.readers[0], reftable.VerifGlobals())
}

// ---------------------------------------------------------------- read programs

// A program is a list of API calls on the shared table; each returns a result string.
type program struct {
	Name  string
	Steps func(f *fixture, tab reftable.Table, st *progState) []func() string
}

type progState struct {
	it *reftable.Iterator
}

func nextRef(st *progState) func() string {
	return func() string {
		if st.it == nil {
			return "noiter"
		}
		var r reftable.RefRecord
		ok, err := st.it.NextRef(&r)
		if err != nil {
			return "err:" + err.Error()
		}
		if !ok {
			return "end"
		}
		return hx.RefCanon(&r)
	}
}

func nextLog(st *progState, hs int) func() string {
	return func() string {
		if st.it == nil {
			return "noiter"
		}
		var l reftable.LogRecord
		ok, err := st.it.NextLog(&l)
		if err != nil {
			return "err:" + err.Error()
		}
		if !ok {
			return "end"
		}
		return hx.LogCanon(&l, hs)
	}
}

func programs() []program {
	seek := func(st *progState, fn func() (*reftable.Iterator, error)) func() string {
		return func() string {
			it, err := fn()
			if err != nil {
				return "err:" + err.Error()
			}
			st.it = it
			return "ok"
		}
	}
	return []program{
		{"seekref-mid+2next", func(f *fixture, tab reftable.Table, st *progState) []func() string {
			return []func() string{seek(st, func() (*reftable.Iterator, error) { return tab.SeekRef(f.names[len(f.names)/2]) }), nextRef(st), nextRef(st)}
		}},
		{"seeklog+2next", func(f *fixture, tab reftable.Table, st *progState) []func() string {
			return []func() string{seek(st, func() (*reftable.Iterator, error) { return tab.SeekLog(f.names[1], math.MaxUint64) }), nextLog(st, f.hs), nextLog(st, f.hs)}
		}},
		{"refsfor+2next", func(f *fixture, tab reftable.Table, st *progState) []func() string {
			return []func() string{seek(st, func() (*reftable.Iterator, error) { return tab.RefsFor(f.oid) }), nextRef(st), nextRef(st)}
		}},
		{"scan-refs", func(f *fixture, tab reftable.Table, st *progState) []func() string {
			steps := []func() string{seek(st, func() (*reftable.Iterator, error) { return tab.SeekRef("") })}
			for i := 0; i < 8; i++ {
				steps = append(steps, nextRef(st))
			}
			return steps
		}},
		{"readref", func(f *fixture, tab reftable.Table, st *progState) []func() string {
			return []func() string{func() string {
				r, err := reftable.ReadRef(tab, f.names[len(f.names)-1])
				if err != nil {
					return "err:" + err.Error()
				}
				if r == nil {
					return "nil"
				}
				return hx.RefCanon(r)
			}}
		}},
		{"readlogat", func(f *fixture, tab reftable.Table, st *progState) []func() string {
			return []func() string{func() string {
				l, err := reftable.ReadLogAt(tab, f.names[0], math.MaxUint64)
				if err != nil {
					return "err:" + err.Error()
				}
				if l == nil {
					return "nil"
				}
				return hx.LogCanon(l, f.hs)
			}}
		}},
		{"scan-logs-to-end", func(f *fixture, tab reftable.Table, st *progState) []func() string {
			steps := []func() string{seek(st, func() (*reftable.Iterator, error) { return tab.SeekLog("", math.MaxUint64) })}
			for i := 0; i < 40; i++ {
				steps = append(steps, nextLog(st, f.hs))
			}
			return steps
		}},
		{"seekref-beyond+scan-to-end", func(f *fixture, tab reftable.Table, st *progState) []func() string {
			steps := []func() string{seek(st, func() (*reftable.Iterator, error) { return tab.SeekRef(f.names[len(f.names)-3]) })}
			for i := 0; i < 5; i++ {
				steps = append(steps, nextRef(st))
			}
			return steps
		}},
	}
}

// alone runs one program without a scheduler and returns its results.
func alone(f *fixture, p program) []string {
	sh, err := f.openPlain()
	if err != nil {
		panic(err)
	}
	st := &progState{}
	var out []string
	for _, s := range p.Steps(f, sh.tab, st) {
		out = append(out, s())
	}
	return out
}

func (f *fixture) openPlain() (*shared, error) {
	g := *f
	g.File = false
	return g.open(nil)
}

// ---------------------------------------------------------------- exploration of one combination

// execBudget is the number of executions one combination may use (set per tier in main).
var execBudget = 150000

// workerBudget caps the executions one worker spends in total before it stops attempting unbounded
// exploration (the unchanged tree needs about 15 000 per worker); workerExecs counts them.
var workerBudget, workerExecs = 1500000, 0

// explosive: some combination of this worker did not fit its budget; from then on the cheap bounded
// phases run first.
var explosive bool

// Wall-clock guards (they can only turn "all interleavings" into "all schedules up to the completed bound",
// reported as exhaustive=false; they never produce or suppress a violation that was found): one combination
// may take comboTime for its unbounded exploration, and a worker that has run for workerTime stops
// attempting unbounded explorations. The unchanged tree needs about 10-40 s per worker in total and about 15 s for its largest combination.
var comboTime, workerTime = 120 * time.Second, 600 * time.Second
var workerStart = time.Now()

type comboResult struct {
	// Capped: combinations whose full interleaving space exceeded the budget; Bound: the preemption bound
	// completed for such a combination (-1: not capped, everything explored; -2: not even bound 0)
	Capped, Bound        int
	MaxCombo             int // the largest number of executions any one combination needed
	Execs, States, Trans int
	Viol                 []report.V
	Err                  string
	Outcomes             int
}

type frozenMon struct {
	sh *shared
	h0 uint64
	// mode 0: off. 1: the package has no synchronisation at all, so NO read may write to the shared
	// object graph. 2: the package uses sync (but not sync/atomic): a write to the shared graph is
	// legitimate only while the writing goroutine holds an exclusive lock (Mutex, RWMutex.Lock, the
	// inside of Once.Do); the state is compared at every scheduling point, lock operation and call
	// end, so each change is attributed to the one goroutine that ran since the previous comparison.
	mode  int
	depth map[int]int
	// atomic[pid]: the goroutine has performed an atomic operation in its current API call
	atomic    map[int]bool
	tolerated int
}

// endCall is called when an API call of goroutine pid has returned.
func (m *frozenMon) endCall(pid int) { delete(m.atomic, pid) }

func (m *frozenMon) check(w *mc.World, pid int, where string) {
	if m.mode == 0 {
		return
	}
	h := m.sh.hash()
	if h == m.h0 {
		return
	}
	m.h0 = h
	if m.mode == 2 {
		if m.depth[pid] > 0 {
			return
		}
		if m.atomic[pid] {
			m.tolerated++
			return
		}
		w.Violate("C19", "frozen:shared-state-written-outside-any-lock@"+where, fmt.Sprintf("goroutine %d changed the shared object graph (or a package-level variable) during %s while holding no exclusive lock; two goroutines doing this race", pid, where))
		return
	}
	w.Violate("C19", "frozen:shared-state-written-by-a-read@"+where, fmt.Sprintf("the shared object graph (or a package-level variable) changed during %s; with no synchronisation in the package two goroutines doing this race", where))
}

func (m *frozenMon) onSync(w *mc.World, pid int, kind, where string) {
	switch kind {
	case "mutex-lock", "rwmutex-lock":
		m.check(w, pid, where)
		m.depth[pid]++
	case "mutex-unlock", "rwmutex-unlock":
		m.check(w, pid, where)
		if m.depth[pid] > 0 {
			m.depth[pid]--
		}
	case "atomic-op":
		// changes made BEFORE the first atomic operation of the call are judged like any other
		m.check(w, pid, where)
		// From here to the end of the API call the goroutine is taken to synchronise through atomics (a flag it
		// set with CompareAndSwap may protect plain data, a pointer it is about to Store may publish what it
		// builds): what it changes is not judged from the object graph. Interleavings ARE explored - every atomic
		// operation is a scheduling point - and judged by the results.
		m.atomic[pid] = true
	case "atomic-done":
		m.check(w, pid, where)
	default:
		m.check(w, pid, where)
	}
}

func explore(f *fixture, progs []program, want [][]string, frozen int) *comboResult {
	res := &comboResult{}
	var names []string
	for _, p := range progs {
		names = append(names, p.Name)
	}
	label := f.Name + ":" + strings.Join(names, "‖")
	var curShared *shared
	build := func() *mc.World {
		w := mc.NewWorld("/d")
		rt.E = w
		if f.File {
			m := map[string][]byte{}
			for i, d := range f.Data {
				m[fmt.Sprintf("t%d.ref", i)] = d
			}
			w.Restore(m)
			w.AllVisible = true
		}
		var sh *shared
		err := w.As(len(progs), func() error {
			var e error
			sh, e = f.open(w)
			return e
		})
		if err != nil {
			w.HarnessErr = err
			return w
		}
		w.Procs = nil
		curShared = sh
		fm := &frozenMon{sh: sh, mode: frozen, depth: map[int]int{}, atomic: map[int]bool{}}
		fm.h0 = sh.hash()
		if frozen == 2 {
			where := func(p *mc.Proc) string {
				if p.CallIdx < len(p.Prog) {
					return strings.SplitN(p.Prog[p.CallIdx].Label, "#", 2)[0]
				}
				return "?"
			}
			w.BeforePoint = func(p *mc.Proc) { fm.check(w, p.ID, where(p)) }
			w.OnSync = func(p *mc.Proc, kind string) { fm.onSync(w, p.ID, kind, where(p)) }
		}
		for pi, p := range progs {
			pi := pi
			st := &progState{}
			var calls []mc.Call
			for si, step := range p.Steps(f, sh.tab, st) {
				si, step := si, step
				calls = append(calls, mc.Call{Label: fmt.Sprintf("%s#%d", p.Name, si), Fn: func(pr *mc.Proc) string {
					var out string
					func() {
						defer func() {
							if r := recover(); r != nil {
								if fmt.Sprintf("%T", r) == "mc.killSentinel" {
									panic(r)
								}
								out = fmt.Sprintf("PANIC: %v", r)
							}
						}()
						out = step()
					}()
					fm.check(w, pi, p.Name)
					fm.endCall(pi)
					if si < len(want[pi]) && out != want[pi][si] {
						w.Violate("C19", "results:differ-from-sequential@"+p.Name, fmt.Sprintf("%s: goroutine %d (%s) step %d returned %q, alone it returns %q", label, pi, p.Name, si, out, want[pi][si]))
					}
					return out
				}})
			}
			w.AddProc(calls)
		}
		w.Atomic = false
		return w
	}
	sc := &mc.Scenario{Name: label, Build: build, MaxPreempt: -1, Horizon: 4000, DeadlockProp: "C19", GlobalsHash: func() uint64 {
		if curShared == nil {
			return 0
		}
		return curShared.hash()
	}}
	// Iterative context bounding first (every schedule with 0, 1, 2 preemptions: cheap, and the first
	// counterexample found has the fewest preemptions), then ALL interleavings if that fits the budgets;
	// code with many synchronisation points may not, and is then reported as covered up to the bound.
	var e *mc.Explorer
	res.Bound = -2
	add := func(x *mc.Explorer) {
		res.Execs += x.St.Executions
		res.States += x.St.States
		res.Trans += x.St.Transitions
		workerExecs += x.St.Executions
		if x.St.HarnessErr != "" {
			res.Err = x.St.HarnessErr
		}
	}
	failed := false
	bounded := func() {
		for b := 0; b <= 2; b++ {
			sc.MaxPreempt = b
			e = mc.NewExplorer(sc)
			e.DetCheck = 1
			e.MaxExec = 20000
			dl := time.Now().Add(comboTime / 4)
			e.Deadline = func() bool { return time.Now().After(dl) }
			e.Explore()
			add(e)
			if len(e.St.Violations) > 0 || e.St.HarnessErr != "" || e.St.HorizonHits > 0 {
				failed = true
				break
			}
			if e.St.CapHit {
				break
			}
			res.Bound = b
		}
		sc.MaxPreempt = -1
	}
	unbounded := func() {
		e = mc.NewExplorer(sc)
		e.DetCheck = 2
		e.MaxExec = execBudget
		dl := time.Now().Add(comboTime)
		e.Deadline = func() bool { return time.Now().After(dl) }
		e.Explore()
		add(e)
		res.Outcomes = len(e.St.Outcomes)
		if e.St.CapHit && len(e.St.Violations) == 0 && e.St.HarnessErr == "" {
			res.Capped = 1
		} else {
			res.Bound = -1
		}
	}
	if !explosive {
		// the normal case: all interleavings at once; the first combination that does not fit switches the
		// worker to bounded-first
		unbounded()
		if res.Capped == 1 {
			explosive = true
			bounded()
		}
	} else {
		bounded()
		if !failed {
			if workerExecs > workerBudget || time.Since(workerStart) > workerTime {
				res.Capped = 1 // this worker has spent its total budget: bounded coverage only
			} else {
				unbounded()
			}
		}
	}
	rt.E = nil
	if e.St.HorizonHits > 0 {
		res.Err = "horizon hit in " + label
	}
	for _, v := range e.St.Violations {
		res.Viol = append(res.Viol, report.V{Property: "C19", Signature: v.Signature, Msg: v.Msg, Count: v.Count,
			Replay: map[string]interface{}{"harness": "sharedread", "fixture": f.Name, "programs": names, "choices": v.Choices, "message": v.Msg}})
	}
	return res
}

// ---------------------------------------------------------------- free-running race pass (supplementary)

func racePass(rounds int) {
	fx := fixtures()
	ps := programs()
	for _, f := range fx {
		sh, err := f.openPlain()
		if err != nil {
			fmt.Println("RACEPASS-ERROR", err)
			os.Exit(2)
		}
		for r := 0; r < rounds; r++ {
			var wg sync.WaitGroup
			for g := 0; g < 4; g++ {
				for _, p := range ps {
					wg.Add(1)
					p := p
					go func() {
						defer wg.Done()
						st := &progState{}
						for _, s := range p.Steps(f, sh.tab, st) {
							s()
						}
					}()
				}
			}
			wg.Wait()
		}
	}
	fmt.Println("RACEPASS-DONE")
}

// ---------------------------------------------------------------- main

type job struct {
	Fixture int
	Progs   []int
}

func main() {
	prop := flag.String("property", "C19", "")
	tier := flag.String("tier", "quick", "")
	worker := flag.String("worker", "", "i/n")
	race := flag.Bool("racepass", false, "internal: free-running bodies (built with -race)")
	replay := flag.String("replay", "", "")
	bindRep := flag.String("bindreport", "", "")
	flag.Parse()
	if *race {
		racePass(30)
		return
	}
	quick := *tier != "thorough"
	if !quick {
		execBudget = 1000000
		workerBudget = 20000000
		comboTime, workerTime = 5*time.Minute, 40*time.Minute
	}
	fx := fixtures()
	ps := programs()
	// is the frozen-state invariant applicable?
	frozen := 1
	var syncImports []string
	if *bindRep != "" {
		if b, err := os.ReadFile(*bindRep); err == nil {
			var br struct {
				SyncImports []string `json:"sync_imports"`
			}
			json.Unmarshal(b, &br)
			syncImports = br.SyncImports
			if len(br.SyncImports) > 0 {
				// lock-aware; with sync/atomic (shim/vatomic) also atomic-aware: the write an atomic operation
				// makes is accepted, every other change needs an exclusive lock
				frozen = 2
			}
		}
	}
	var jobs []job
	for fi := range fx {
		for a := range ps {
			for b := range ps {
				jobs = append(jobs, job{fi, []int{a, b}})
			}
		}
		// selected triples: the three seek kinds together, and two scans with a point lookup
		triples := [][]int{{0, 1, 2}, {3, 6, 4}, {0, 0, 0}, {2, 2, 5}}
		if !quick {
			for a := 0; a < len(ps); a++ {
				for b := a; b < len(ps); b++ {
					for c := b; c < len(ps); c++ {
						if a != 6 && b != 6 && c != 6 { // without the long log scan
							triples = append(triples, []int{a, b, c})
						}
					}
				}
			}
		}
		for _, t := range triples {
			jobs = append(jobs, job{fi, t})
		}
	}
	runJob := func(j job) *comboResult {
		f := fx[j.Fixture]
		var progs []program
		var want [][]string
		for _, pi := range j.Progs {
			progs = append(progs, ps[pi])
			want = append(want, alone(f, ps[pi]))
		}
		return explore(f, progs, want, frozen)
	}
	if *replay != "" {
		b, _ := os.ReadFile(*replay)
		var v struct {
			Signature string `json:"signature"`
			Replay    struct {
				Fixture  string   `json:"fixture"`
				Programs []string `json:"programs"`
			} `json:"replay"`
		}
		json.Unmarshal(b, &v)
		for _, j := range jobs {
			var names []string
			for _, pi := range j.Progs {
				names = append(names, ps[pi].Name)
			}
			if fx[j.Fixture].Name == v.Replay.Fixture && strings.Join(names, ",") == strings.Join(v.Replay.Programs, ",") {
				r := runJob(j)
				for _, x := range r.Viol {
					fmt.Printf("violation %s\n%s\n", x.Signature, x.Msg)
				}
				if len(r.Viol) > 0 {
					fmt.Printf("VIOLATION property=%s replay=%s\n", *prop, *replay)
					os.Exit(1)
				}
				fmt.Println("the recorded violation did not recur")
				os.Exit(0)
			}
		}
		fmt.Println("HARNESS-ERROR combination not found")
		os.Exit(2)
	}
	if *worker != "" {
		var wi, wn int
		fmt.Sscanf(*worker, "%d/%d", &wi, &wn)
		tot := &comboResult{}
		combos := 0
		for ji, j := range jobs {
			if ji%wn != wi {
				continue
			}
			r := runJob(j)
			combos++
			tot.Execs += r.Execs
			tot.States += r.States
			tot.Trans += r.Trans
			tot.Outcomes += r.Outcomes
			if r.Execs > tot.MaxCombo {
				tot.MaxCombo = r.Execs
			}
			if r.Capped > 0 {
				tot.Capped++
				if tot.Capped == 1 || r.Bound < tot.Bound {
					tot.Bound = r.Bound
				}
			}
			tot.Viol = append(tot.Viol, r.Viol...)
			if r.Err != "" {
				tot.Err = r.Err
			}
		}
		js, _ := json.Marshal(map[string]interface{}{"res": tot, "combos": combos})
		fmt.Println("WORKERRESULT " + string(js))
		return
	}
	run := report.NewRun(*prop, *tier, "model_checking")
	self, _ := os.Executable()
	const W = 16
	type wr struct {
		Res    comboResult `json:"res"`
		Combos int         `json:"combos"`
	}
	outs := make([]*wr, W)
	errs := make([]string, W)
	var wg sync.WaitGroup
	for i := 0; i < W; i++ {
		wg.Add(1)
		go func(i int) {
			defer wg.Done()
			cmd := exec.Command(self, "--property", *prop, "--tier", *tier, "--worker", fmt.Sprintf("%d/%d", i, W), "--bindreport", *bindRep)
			cmd.Env = append(os.Environ(), "GOMAXPROCS=1")
			out, err := cmd.CombinedOutput()
			o := &wr{}
			ok := false
			for _, l := range strings.Split(string(out), "\n") {
				if strings.HasPrefix(l, "WORKERRESULT ") {
					ok = json.Unmarshal([]byte(l[len("WORKERRESULT "):]), o) == nil
				}
			}
			if !ok {
				tail := string(out)
				if len(tail) > 3000 {
					tail = tail[len(tail)-3000:]
				}
				errs[i] = fmt.Sprintf("worker %d died: %v\n%s", i, err, tail)
			}
			outs[i] = o
		}(i)
	}
	wg.Wait()
	execs, states, trans, combos, outcomes := 0, 0, 0, 0, 0
	capped, minBound, maxCombo := 0, 1<<30, 0
	seen := map[string]bool{}
	for i, o := range outs {
		if errs[i] != "" || o.Res.Err != "" {
			fmt.Println("HARNESS-ERROR", errs[i], o.Res.Err)
			os.Exit(2)
		}
		execs += o.Res.Execs
		states += o.Res.States
		trans += o.Res.Trans
		combos += o.Combos
		outcomes += o.Res.Outcomes
		if o.Res.MaxCombo > maxCombo {
			maxCombo = o.Res.MaxCombo
		}
		if o.Res.Capped > 0 {
			capped += o.Res.Capped
			if o.Res.Bound < minBound {
				minBound = o.Res.Bound
			}
		}
		for _, v := range o.Res.Viol {
			if !seen[v.Signature] {
				seen[v.Signature] = true
				run.Violations = append(run.Violations, v)
			}
		}
	}
	// supplementary race-detector pass
	raceStatus := "not built"
	if rb := os.Getenv("VERIF_RACE_BIN"); rb != "" {
		cmd := exec.Command(rb, "--racepass")
		cmd.Env = append(os.Environ(), "GORACE=halt_on_error=0")
		out, err := cmd.CombinedOutput()
		s := string(out)
		switch {
		case strings.Contains(s, "WARNING: DATA RACE"):
			raceStatus = "race reported"
			i := strings.Index(s, "WARNING: DATA RACE")
			rep := s[i:]
			if len(rep) > 1800 {
				rep = rep[:1800]
			}
			site := "?"
			for _, l := range strings.Split(rep, "\n") {
				if strings.Contains(l, "github.com/google/reftable.") {
					site = strings.TrimSpace(l)
					site = site[strings.Index(site, "reftable.")+len("reftable."):]
					if j := strings.Index(site, "("); j > 0 && !strings.HasPrefix(site, "(") {
						site = site[:j]
					}
					break
				}
			}
			run.Violations = append(run.Violations, report.V{Property: *prop, Signature: "race-detector:data-race@" + site, Msg: "free-running concurrent reads of a shared Reader/Merged under the Go race detector:\n" + rep, Count: strings.Count(s, "WARNING: DATA RACE"), Replay: map[string]interface{}{"harness": "sharedread", "racepass": true, "report": rep}})
		case err != nil || !strings.Contains(s, "RACEPASS-DONE"):
			raceStatus = fmt.Sprintf("failed to run: %v", err)
		default:
			raceStatus = "no race reported (sampling; proves nothing)"
		}
	}
	sort.Slice(run.Violations, func(i, j int) bool { return run.Violations[i].Signature < run.Violations[j].Signature })
	cov := run.Coverage
	cov["states"] = states
	cov["transitions"] = trans
	cov["traces_validated_against_impl"] = execs
	cov["evaluations"] = execs
	cov["distinct_nontrivial"] = execs - combos
	cov["combinations"] = combos
	cov["fixtures"] = func() []string {
		var n []string
		for _, f := range fx {
			n = append(n, f.Name)
		}
		return n
	}()
	cov["programs_menu"] = func() []string {
		var n []string
		for _, p := range ps {
			n = append(n, p.Name)
		}
		return n
	}()
	cov["frozen_state_invariant"] = map[string]interface{}{"evaluated": frozen != 0, "mode": map[int]string{0: "off", 1: "strict: no read may write to the shared object graph (package has no synchronisation)", 2: "lock-aware: the shared graph may change only while the writing goroutine holds an exclusive lock of the sync shim, or through an atomic operation of the sync/atomic shim (that operation's own write only)"}[frozen], "sync_imports_in_package": syncImports}
	cov["race_detector_pass_supplementary"] = raceStatus
	cov["distinct_outcomes_total"] = outcomes
	cov["rule"] = "for each fixture (Reader over memory with 128-byte blocks, unaligned, file-backed sha256, file-backed with three 128 KiB blocks; Merged of three readers) every ordered pair of the 8 read programs and selected triples (thorough: all unordered triples without the long log scan) runs as goroutines sharing one object under the controlled scheduler, with scheduling points at every API call and every ReadBlock/ReadAt; ALL interleavings are explored (state cache on per-goroutine observation history + deep hash of the shared object). Non-trivial = every execution beyond the first of a combination (a different interleaving)"
	cov["samples"] = []interface{}{fmt.Sprintf("%s: %s ‖ %s, all interleavings at ReadBlock granularity", fx[0].Name, ps[0].Name, ps[3].Name), fmt.Sprintf("%s: %s ‖ %s ‖ %s", fx[len(fx)-1].Name, ps[0].Name, ps[1].Name, ps[2].Name)}
	cov["exhaustive"] = capped == 0
	cov["execution_budget_per_combination"] = execBudget
	cov["execution_budget_per_worker"] = workerBudget
	cov["wall_clock_guard_per_combination_s"] = comboTime.Seconds()
	cov["wall_clock_guard_per_worker_s"] = workerTime.Seconds()
	cov["largest_combination_executions"] = maxCombo
	if capped > 0 {
		cov["combinations_over_budget"] = capped
		cov["preemption_bound_completed_for_all_of_them"] = minBound
		cov["cap_note"] = "the full interleaving space of these combinations exceeds the per-combination budget (code with many synchronisation points); for them every schedule with at most the stated number of preemptions was explored instead (iterative context bounding)"
	}
	if *bindRep != "" {
		if b, err := os.ReadFile(*bindRep); err == nil {
			var br interface{}
			json.Unmarshal(b, &br)
			cov["binding"] = br
		}
	}
	run.Assumptions = []string{
		"observable half of C19 (results equal sequential; shared state never written by reads when the package has no synchronisation) is decided exhaustively at ReadBlock/API-call granularity",
		"'no data race in the Go memory model' for writes that leave no trace in the object graph is not decidable by a cooperative scheduler; the race-detector pass is complementary sampling and is labelled as such (a report is a real race, silence is not evidence)",
		"if the package imports sync, its primitives are replaced by shim/vsync: blocking operations are scheduling points with an enabledness condition (all acquisition orders explored, deadlock reported), and the frozen-state invariant becomes lock-aware (a change of the shared object graph is legitimate only while the changing goroutine holds an exclusive lock); sync/atomic is replaced by shim/vatomic: every atomic operation is a scheduling point; a goroutine that used an atomic operation in its current call is not judged by the frozen-state invariant (results still are); channels and sync.Cond are not modelled",
	}
	os.Exit(run.Finish())
}
