// Command autocompact decides C17: (a) the segment chooser on EVERY table-size vector up to a
// length over representative size classes, (b) single-writer workloads of identical-size
// transactions on the real Stack, checked after every Add.
package main

import (
	"encoding/json"
	"flag"
	"fmt"
	"math"
	"os"
	"os/exec"
	"sort"
	"strings"
	"sync"

	"github.com/google/reftable"
	"github.com/google/reftable/zz_verif/rt"

	"verif/engine/mc"
	"verif/internal/hx"
	"verif/internal/report"
	"verif/internal/stk"
)

type viol struct {
	Sig  string      `json:"sig"`
	Msg  string      `json:"msg"`
	Case interface{} `json:"case"`
	N    int         `json:"n"`
}

type result struct {
	Vectors   int              `json:"vectors"`
	NonNil    int              `json:"nonnil"`
	Adds      int              `json:"adds"`
	Compacts  int              `json:"compacts"`
	Workloads int              `json:"workloads"`
	MaxRatio  float64          `json:"max_depth_ratio"`
	MaxERatio float64          `json:"max_entries_ratio"`
	Viol      map[string]*viol `json:"viol"`
	Samples   []string         `json:"samples"`
	Err       string           `json:"err,omitempty"`
}

func (r *result) violate(sig, msg string, c interface{}) {
	if v, ok := r.Viol[sig]; ok {
		v.N++
		return
	}
	r.Viol[sig] = &viol{sig, msg, c, 1}
}

var sizeAlphabet = []uint64{1, 2, 3, 4, 5, 7, 8, 9, 15, 16, 17, 1000}

func ilog2(x uint64) int {
	l := -1
	for x > 0 {
		l++
		x >>= 1
	}
	if l < 0 {
		return 0
	}
	return l
}

// checkVector applies the oracle (a) to one size vector.
func checkVector(sizes []uint64, res *result) {
	res.Vectors++
	adjacent := false
	for i := 1; i < len(sizes); i++ {
		if ilog2(sizes[i]) == ilog2(sizes[i-1]) {
			adjacent = true
		}
	}
	var start, end int
	var ok bool
	func() {
		defer func() {
			if r := recover(); r != nil {
				res.violate("suggest:panic", fmt.Sprintf("suggestCompactionSegment(%v) panicked: %v", sizes, r), sizes)
				ok = false
				adjacent = false
			}
		}()
		start, end, ok = reftable.VerifSuggest(sizes)
	}()
	if ok != adjacent {
		if ok {
			res.violate("suggest:segment-without-equal-neighbours", fmt.Sprintf("sizes %v: suggests [%d,%d) although no two adjacent tables share a size class", sizes, start, end), sizes)
		} else {
			res.violate("suggest:nothing-despite-equal-neighbours", fmt.Sprintf("sizes %v: reports nothing to do although two adjacent tables share a power-of-two size class", sizes), sizes)
		}
		return
	}
	if !ok {
		return
	}
	res.NonNil++
	if start < 0 || end > len(sizes) || end-start < 2 {
		res.violate("suggest:invalid-range", fmt.Sprintf("sizes %v: suggested range [%d,%d) is not a contiguous range of at least two tables inside the stack", sizes, start, end), sizes)
		return
	}
	// progress: suggest, replace the range by its sum, repeat; must end in fewer than len steps
	cur := append([]uint64{}, sizes...)
	for steps := 0; ; steps++ {
		s, e, ok := reftable.VerifSuggest(cur)
		if !ok {
			break
		}
		if s < 0 || e > len(cur) || e-s < 2 {
			res.violate("suggest:invalid-range-while-iterating", fmt.Sprintf("sizes %v -> %v: range [%d,%d)", sizes, cur, s, e), sizes)
			return
		}
		if steps >= len(sizes) {
			res.violate("suggest:no-progress", fmt.Sprintf("sizes %v: repeated compaction does not terminate within %d steps (now %v)", sizes, len(sizes), cur), sizes)
			return
		}
		var sum uint64
		for _, v := range cur[s:e] {
			sum += v
		}
		cur = append(append(append([]uint64{}, cur[:s]...), sum), cur[e:]...)
	}
}

func enumVectors(maxLen int, wi, wn int, res *result) {
	unit := 0
	var rec func(cur []uint64, mine bool)
	rec = func(cur []uint64, mine bool) {
		if len(cur) == 2 {
			// subtrees below each length-2 prefix are dealt round-robin to the workers
			unit++
			mine = (unit-1)%wn == wi
		}
		if (len(cur) < 2 && wi == 0) || (len(cur) >= 2 && mine) {
			checkVector(cur, res)
		}
		if len(cur) == maxLen || (len(cur) >= 2 && !mine) {
			return
		}
		for _, s := range sizeAlphabet {
			rec(append(append([]uint64{}, cur...), s), mine)
		}
	}
	rec(nil, false)
}

// ---------------------------------------------------------------- (b) workloads

type shape struct {
	NameLen int
	Kind    string // value symref peeled
	Refs    int
	Fresh   bool
	Cfg     string
}

var cfgs = map[string]reftable.Config{
	"default":   {},
	"unaligned": {Unaligned: true},
	"bs256":     {BlockSize: 256},
	"s256":      {HashID: reftable.SHA256ID},
}

func runWorkload(sh shape, N int, res *result) {
	cfg := cfgs[sh.Cfg]
	hs := stk.HashSize(cfg)
	w := mc.NewWorld(stk.Dir)
	rt.E = w
	defer func() { rt.E = nil }()
	w.Atomic = true
	res.Workloads++
	viol := func(sig, msg string) {
		res.violate(sig, fmt.Sprintf("workload %+v: %s", sh, msg), sh)
	}
	w.As(0, func() error {
		st, err := reftable.NewStack(stk.Dir, cfg)
		if err != nil {
			viol("workload:open-fails", err.Error())
			return nil
		}
		st.VerifSetAutoCompact(false)
		hdr, ftr := 24, 68
		if cfg.HashID == reftable.SHA256ID {
			hdr, ftr = 28, 72
		}
		for n := 1; n <= N; n++ {
			before := st.VerifLen()
			attempts := st.Stats.Attempts
			ui := st.NextUpdateIndex()
			err := func() (err error) {
				defer func() {
					if r := recover(); r != nil {
						if fmt.Sprintf("%T", r) == "mc.killSentinel" {
							panic(r)
						}
						err = fmt.Errorf("panic: %v", r)
					}
				}()
				return st.Add(func(wr *reftable.Writer) error {
					wr.SetLimits(ui, ui)
					for i := 0; i < sh.Refs; i++ {
						id := i
						if sh.Fresh {
							id = n*sh.Refs + i
						}
						name := fmt.Sprintf("refs/%0*d", sh.NameLen-5, id)
						rec := reftable.RefRecord{RefName: name, UpdateIndex: ui}
						switch sh.Kind {
						case "value":
							rec.Value = hx.Hash(fmt.Sprint("v", id), hs)
						case "peeled":
							rec.Value = hx.Hash(fmt.Sprint("v", id), hs)
							rec.TargetValue = hx.Hash(fmt.Sprint("p", id), hs)
						case "symref":
							rec.Target = "refs/heads/main"
						case "deletion":
							// tombstones only: a compaction that includes the oldest table cancels out entirely
						}
						if err := wr.AddRef(&rec); err != nil {
							return err
						}
					}
					return nil
				})
			}()
			res.Adds++
			if err != nil {
				viol("workload:add-fails", fmt.Sprintf("Add #%d: %v", n, err))
				return nil
			}
			// Add = commit + AutoCompact. Between the two, decide independently (from the file lengths in
			// the directory) whether two adjacent tables share a size class: class = floor(log2(bytes of
			// blocks + 1)), i.e. the file without header and footer.
			// The +1 is the implementation's convention; the statement does not fix it, so a decision that
			// agrees with either convention (bytes of blocks, or bytes of blocks + 1) is accepted.
			var classes, classes0 []int
			for _, nm := range st.VerifNames() {
				ino := w.Lookup(nm)
				if ino == nil {
					viol("workload:listed-table-missing", nm)
					return nil
				}
				classes = append(classes, ilog2(uint64(len(ino.Data)-hdr-ftr+1)))
				classes0 = append(classes0, ilog2(uint64(len(ino.Data)-hdr-ftr)))
			}
			adjacent, adjacent0 := false, false
			for i := 1; i < len(classes); i++ {
				if classes[i] == classes[i-1] {
					adjacent = true
				}
				if classes0[i] == classes0[i-1] {
					adjacent0 = true
				}
			}
			if err := st.AutoCompact(); err != nil {
				viol("workload:autocompact-fails", fmt.Sprintf("after Add #%d: %v", n, err))
				return nil
			}
			if attempted := st.Stats.Attempts > attempts; attempted != adjacent && attempted != adjacent0 {
				if attempted {
					viol("workload:compaction-without-equal-neighbours", fmt.Sprintf("after Add #%d the tables have size classes %v (no two adjacent equal) but AutoCompact compacted", n, classes))
				} else {
					viol("workload:nothing-despite-equal-neighbours", fmt.Sprintf("after Add #%d the tables have size classes %v (two adjacent tables share a class) but AutoCompact reported nothing to do", n, classes))
				}
				return nil
			}
			depth := st.VerifLen()
			if st.Stats.Attempts > attempts {
				res.Compacts++
				if st.Stats.Failures > 0 {
					viol("workload:compaction-fails", fmt.Sprintf("after Add #%d Stats.Failures=%d with a single writer", n, st.Stats.Failures))
					return nil
				}
				if depth > before {
					viol("workload:compaction-did-not-reduce-tables", fmt.Sprintf("Add #%d ran a compaction but the stack went from %d(+1) to %d tables", n, before, depth))
				}
				if len(classes) > 0 && depth >= len(classes) {
					viol("workload:compaction-did-not-reduce-tables", fmt.Sprintf("after Add #%d AutoCompact ran but left %d of %d tables", n, depth, len(classes)))
				}
			}
			if n >= 2 {
				limit := 2 * math.Log2(float64(n))
				if r := float64(depth) / limit; r > res.MaxRatio {
					res.MaxRatio = r
				}
				if float64(depth) > limit {
					viol(fmt.Sprintf("workload:depth-bound@n=%d", n), fmt.Sprintf("after %d transactions the stack is %d tables deep, limit 2*log2(n) = %.2f", n, depth, limit))
				}
				elimit := float64(n) * math.Log2(float64(n)) * float64(sh.Refs)
				if r := float64(st.Stats.EntriesWritten) / elimit; r > res.MaxERatio {
					res.MaxERatio = r
				}
				if float64(st.Stats.EntriesWritten) > elimit {
					viol(fmt.Sprintf("workload:entries-bound@n=%d", n), fmt.Sprintf("after %d transactions of %d entries compaction has rewritten %d entries, limit n*log2(n)*entries = %.2f", n, sh.Refs, st.Stats.EntriesWritten, elimit))
				}
			}
		}
		if len(res.Samples) < 2 {
			res.Samples = append(res.Samples, fmt.Sprintf("%+v N=%d: final depth %d, compaction attempts %d, entries rewritten %d", sh, N, st.VerifLen(), st.Stats.Attempts, st.Stats.EntriesWritten))
		}
		return nil
	})
}

func allShapes() []shape {
	var out []shape
	for _, cfg := range []string{"default", "unaligned", "bs256", "s256"} {
		for _, nl := range []int{12, 40} {
			for _, k := range []string{"value", "symref", "peeled", "deletion"} {
				for _, refs := range []int{1, 3, 20} {
					for _, fresh := range []bool{true, false} {
						out = append(out, shape{nl, k, refs, fresh, cfg})
					}
				}
			}
		}
	}
	return out
}

func main() {
	prop := flag.String("property", "C17", "")
	tier := flag.String("tier", "quick", "")
	worker := flag.String("worker", "", "")
	replay := flag.String("replay", "", "")
	bindRep := flag.String("bindreport", "", "")
	flag.Parse()
	quick := *tier != "thorough"
	maxLen, N := 5, 512
	if !quick {
		maxLen, N = 7, 4096
	}
	if *replay != "" {
		b, err := os.ReadFile(*replay)
		if err != nil {
			fmt.Println("HARNESS-ERROR", err)
			os.Exit(2)
		}
		var v struct {
			Signature string `json:"signature"`
			Replay    struct {
				Case json.RawMessage `json:"case"`
			} `json:"replay"`
		}
		json.Unmarshal(b, &v)
		res := &result{Viol: map[string]*viol{}}
		var sizes []uint64
		var sh shape
		if json.Unmarshal(v.Replay.Case, &sizes) == nil && sizes != nil {
			checkVector(sizes, res)
		} else if json.Unmarshal(v.Replay.Case, &sh) == nil {
			runWorkload(sh, 4096, res)
		}
		for k, x := range res.Viol {
			fmt.Printf("violation %s\n%s\n", k, x.Msg)
		}
		if _, ok := res.Viol[v.Signature]; ok {
			fmt.Printf("VIOLATION property=%s replay=%s\n", *prop, *replay)
			os.Exit(1)
		}
		fmt.Println("the recorded violation did not recur")
		os.Exit(0)
	}
	if *worker != "" {
		var i, n int
		fmt.Sscanf(*worker, "%d/%d", &i, &n)
		res := &result{Viol: map[string]*viol{}}
		func() {
			defer func() {
				if r := recover(); r != nil {
					res.Err = fmt.Sprint("worker panic: ", r)
				}
			}()
			enumVectors(maxLen, i, n, res)
			for si, sh := range allShapes() {
				if si%n == i {
					runWorkload(sh, N, res)
				}
			}
		}()
		js, _ := json.Marshal(res)
		fmt.Println("WORKERRESULT " + string(js))
		return
	}
	run := report.NewRun(*prop, *tier, "model_checking")
	self, _ := os.Executable()
	const W = 16
	results := make([]*result, W)
	var wg sync.WaitGroup
	for i := 0; i < W; i++ {
		wg.Add(1)
		go func(i int) {
			defer wg.Done()
			cmd := exec.Command(self, "--property", *prop, "--tier", *tier, "--worker", fmt.Sprintf("%d/%d", i, W))
			cmd.Env = append(os.Environ(), "GOMAXPROCS=1")
			out, err := cmd.CombinedOutput()
			r := &result{Viol: map[string]*viol{}}
			ok := false
			for _, l := range strings.Split(string(out), "\n") {
				if strings.HasPrefix(l, "WORKERRESULT ") {
					ok = json.Unmarshal([]byte(l[len("WORKERRESULT "):]), r) == nil
				}
			}
			if !ok {
				tail := string(out)
				if len(tail) > 3000 {
					tail = tail[len(tail)-3000:]
				}
				r.Err = fmt.Sprintf("worker %d died: %v\n%s", i, err, tail)
			}
			results[i] = r
		}(i)
	}
	wg.Wait()
	tot := &result{Viol: map[string]*viol{}}
	for _, r := range results {
		if r.Err != "" {
			fmt.Println("HARNESS-ERROR", r.Err)
			os.Exit(2)
		}
		tot.Vectors += r.Vectors
		tot.NonNil += r.NonNil
		tot.Adds += r.Adds
		tot.Compacts += r.Compacts
		tot.Workloads += r.Workloads
		tot.MaxRatio = math.Max(tot.MaxRatio, r.MaxRatio)
		tot.MaxERatio = math.Max(tot.MaxERatio, r.MaxERatio)
		if len(tot.Samples) < 6 {
			tot.Samples = append(tot.Samples, r.Samples...)
		}
		for k, v := range r.Viol {
			if o, ok := tot.Viol[k]; ok {
				o.N += v.N
			} else {
				tot.Viol[k] = v
			}
		}
	}
	var sigs []string
	for k := range tot.Viol {
		sigs = append(sigs, k)
	}
	sort.Strings(sigs)
	for _, k := range sigs {
		v := tot.Viol[k]
		run.Violations = append(run.Violations, report.V{Property: *prop, Signature: v.Sig, Msg: v.Msg, Count: v.N, Replay: map[string]interface{}{"harness": "autocompact", "case": v.Case, "message": v.Msg}})
	}
	cov := run.Coverage
	cov["states"] = tot.Vectors + tot.Adds
	cov["transitions"] = tot.NonNil + tot.Compacts
	cov["traces_validated_against_impl"] = tot.Vectors + tot.Workloads
	cov["evaluations"] = tot.Vectors + tot.Adds
	cov["distinct_nontrivial"] = tot.NonNil + tot.Compacts
	cov["size_vectors"] = tot.Vectors
	cov["size_vectors_with_a_suggestion"] = tot.NonNil
	cov["max_vector_length"] = maxLen
	cov["size_alphabet"] = sizeAlphabet
	cov["workloads"] = tot.Workloads
	cov["transactions_per_workload"] = N
	cov["adds_checked"] = tot.Adds
	cov["compactions_observed"] = tot.Compacts
	cov["worst_depth_over_limit"] = tot.MaxRatio
	cov["worst_entries_over_limit"] = tot.MaxERatio
	cov["rule"] = "(a) every size vector of length 0..L over the alphabet (sizes around class boundaries 2,4,8,16 and a large one) is given to the real segment chooser: result nil iff no two adjacent sizes share floor(log2); otherwise a contiguous in-range segment of >=2 tables; iterating suggest + replace-by-sum terminates in fewer than len steps. (b) for every workload shape (name length x value kind x refs per transaction x fresh/rewritten names x write configuration) N identical-size transactions are added to a real Stack; after EVERY Add (performed as commit, then an explicit AutoCompact): AutoCompact compacts iff two adjacent tables share a size class computed independently from the file lengths, a compaction that ran reduced the table count, depth <= 2*log2(n) (n>=2), Stats.EntriesWritten <= n*log2(n)*entries per transaction. Non-trivial = a vector with a suggestion / an Add that triggered a compaction"
	var ss []interface{}
	for _, s := range tot.Samples {
		ss = append(ss, s)
	}
	cov["samples"] = ss
	cov["exhaustive"] = true
	if *bindRep != "" {
		if b, err := os.ReadFile(*bindRep); err == nil {
			var br interface{}
			json.Unmarshal(b, &br)
			cov["binding"] = br
		}
	}
	run.Assumptions = []string{
		"'for all N' is decided up to the stated N; size vectors up to the stated length over 12 representative sizes",
		"n=1 is excluded from the depth bound (2*log2(1) = 0 cannot hold for a non-empty stack)",
		"in-memory directory model in atomic mode (single writer)",
	}
	os.Exit(run.Finish())
}
