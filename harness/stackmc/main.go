// Command stackmc explores interleavings of stack handles ("processes") at
// filesystem-call granularity (engine E1) for properties C04 C05 C08 C10 C16.
package main

import (
	"encoding/json"
	"flag"
	"fmt"
	"os"
	"os/exec"
	"sort"
	"strings"
	"sync"
	"time"

	"github.com/google/reftable"

	"verif/engine/mc"
	"verif/internal/deephash"
	"verif/internal/report"
)

func globalsHash() uint64 { return deephash.Of(reftable.VerifGlobals()) }

type jobResult struct {
	Scenario       string   `json:"scenario"`
	Why            string   `json:"why"`
	Procs          int      `json:"processes"`
	Bound          string   `json:"preemption_bound"`
	Stats          mc.Stats `json:"stats"`
	Outcomes       int      `json:"distinct_outcomes"`
	Sample         []string `json:"sample_schedule"`
	SampleOut      string   `json:"sample_outcome"`
	Nontrivial     int      `json:"nontrivial"`
	Exhaustive     bool     `json:"exhaustive"`
	Wall           float64  `json:"wall_s"`
	FaultPositions int      `json:"fault_positions,omitempty"`
	Err            string   `json:"error,omitempty"`
	ReductionOff   string   `json:"visibility_reduction_off,omitempty"`
}

// runJob explores one scenario. The visibility reduction (descriptor I/O on a process's own temporary and
// lock files is not a scheduling point) rests on an assumption that is checked at run time: nobody reads
// another process's *.reftmp or *.lock. If the code under test does, the scenario is explored again with
// EVERY filesystem call as a scheduling point, preemption-bounded (at most 2) because that space is much
// larger; the result says so.
func runJob(prop string, sc *scenario, budget time.Duration, detCheck int) *jobResult {
	res := runJobOnce(prop, sc, budget, detCheck)
	if strings.Contains(res.Err, "reduction assumption broken") && !sc.allVisible {
		c := *sc
		c.allVisible = true
		if c.Preempt < 0 || c.Preempt > 2 {
			c.Preempt = 2
		}
		why := res.Err
		res = runJobOnce(prop, &c, budget, detCheck)
		res.ReductionOff = why
		res.Exhaustive = false
	}
	return res
}

func runJobOnce(prop string, sc *scenario, budget time.Duration, detCheck int) *jobResult {
	res := &jobResult{Scenario: sc.Name, Why: sc.Why, Procs: len(sc.Procs)}
	start := time.Now()
	var e *mc.Explorer
	nontrivial := 0
	var sample []string
	deadline := start.Add(budget)
	var total mc.Stats
	total.Outcomes = map[string]int{}
	for k := 1; ; k++ {
		if sc.FaultEnum {
			sc.faultAt = k
		}
		msc, err := sc.build(prop)
		if err != nil {
			res.Err = err.Error()
			return res
		}
		e = mc.NewExplorer(msc)
		e.DetCheck = detCheck
		if sc.FaultEnum {
			e.DetCheck = 1
		}
		e.Deadline = func() bool { return time.Now().After(deadline) }
		e.OnExec = func(x *mc.Exec) {
			// non-trivial: at least two context switches between unfinished processes, or an injected fault
			sw := 0
			for i := 1; i < len(x.Schedule); i++ {
				if x.Schedule[i] != x.Schedule[i-1] {
					sw++
				}
			}
			if sw >= 2 || sc.FaultEnum {
				nontrivial++
				if sample == nil {
					sample = append([]string{}, x.Schedule...)
				}
			}
		}
		e.Explore()
		if !sc.FaultEnum {
			break
		}
		// accumulate over the enumerated fault positions
		total.Executions += e.St.Executions
		total.States += e.St.States
		total.Transitions += e.St.Transitions
		total.Completed += e.St.Completed
		total.Cuts += e.St.Cuts
		total.DetChecked += e.St.DetChecked
		total.HorizonHits += e.St.HorizonHits
		total.CapHit = total.CapHit || e.St.CapHit
		if e.St.MaxDepth > total.MaxDepth {
			total.MaxDepth = e.St.MaxDepth
		}
		for o, n := range e.St.Outcomes {
			total.Outcomes[o] += n
		}
		for _, v := range e.St.Violations {
			dup := false
			for i := range total.Violations {
				if total.Violations[i].Signature == v.Signature && total.Violations[i].Property == v.Property {
					total.Violations[i].Count += v.Count
					dup = true
				}
			}
			if !dup {
				v.Msg = fmt.Sprintf("[process 0's filesystem call #%d fails with EIO] %s", k, v.Msg)
				total.Violations = append(total.Violations, v)
			}
		}
		if e.St.HarnessErr != "" {
			total.HarnessErr = e.St.HarnessErr
		}
		if k > e.St.OpsSeen || e.St.HarnessErr != "" || k > 600 {
			// k is beyond the last filesystem call of the program: every position has been covered
			res.FaultPositions = k - 1
			e.St = total
			break
		}
	}
	res.Stats = e.St
	res.Outcomes = len(e.St.Outcomes)
	res.Stats.Outcomes = nil
	res.Nontrivial = nontrivial
	res.Sample = compress(sample)
	if ks := e.St.SortedOutcomes(); len(ks) > 0 {
		res.SampleOut = ks[0]
	}
	res.Bound = "unbounded"
	if sc.Preempt >= 0 {
		res.Bound = fmt.Sprint(sc.Preempt)
	}
	res.Exhaustive = !e.St.CapHit && e.St.HorizonHits == 0 && e.St.HarnessErr == ""
	res.Err = e.St.HarnessErr
	res.Wall = time.Since(start).Seconds()
	return res
}

// compress run-length encodes a schedule for display.
func compress(s []string) []string {
	var out []string
	for i := 0; i < len(s); {
		j := i
		for j < len(s) && s[j] == s[i] {
			j++
		}
		out = append(out, fmt.Sprintf("%s×%d", s[i], j-i))
		i = j
	}
	return out
}

func main() {
	prop := flag.String("property", "", "C04 C05 C08 C10 C16")
	tier := flag.String("tier", "quick", "")
	job := flag.String("job", "", "internal: run one scenario and print its result as JSON")
	replay := flag.String("replay", "", "replay file")
	list := flag.Bool("list", false, "list scenarios")
	only := flag.String("only", "", "comma-separated scenario names (debugging)")
	budgetS := flag.Int("budget", 0, "per-scenario wall-clock cap in seconds (0: tier default)")
	bindRep := flag.String("bindreport", "", "")
	flag.Parse()
	if t := os.Getenv("VERIF_TIER"); t != "" && *tier == "" {
		*tier = t
	}
	scs := catalogue(*prop, *tier)
	if *only != "" {
		var f []*scenario
		for _, s := range allScenarios() {
			for _, o := range strings.Split(*only, ",") {
				if s.Name == o {
					f = append(f, s)
				}
			}
		}
		scs = f
	}
	if *list {
		for _, s := range scs {
			fmt.Println(s.Name, "-", s.Why)
		}
		return
	}
	budget := 120 * time.Second
	if *tier == "thorough" {
		budget = 1800 * time.Second
	}
	if *budgetS > 0 {
		budget = time.Duration(*budgetS) * time.Second
	}
	if *replay != "" {
		os.Exit(doReplay(*prop, *replay))
	}
	if *job != "" {
		for _, s := range allScenarios() {
			if s.Name == *job {
				det := 20
				if *tier == "thorough" {
					det = 200
				}
				r := runJob(*prop, s, budget, det)
				js, _ := json.Marshal(r)
				fmt.Println("JOBRESULT " + string(js))
				return
			}
		}
		fmt.Println("JOBRESULT {\"error\":\"no such scenario\"}")
		return
	}

	// parent: one subprocess per scenario, up to 16 at a time
	run := report.NewRun(*prop, *tier, "model_checking")
	self, _ := os.Executable()
	results := make([]*jobResult, len(scs))
	var wg sync.WaitGroup
	sem := make(chan struct{}, 16)
	for i, s := range scs {
		wg.Add(1)
		go func(i int, s *scenario) {
			defer wg.Done()
			sem <- struct{}{}
			defer func() { <-sem }()
			cmd := exec.Command(self, "--property", *prop, "--tier", *tier, "--job", s.Name, "--budget", fmt.Sprint(int(budget.Seconds())))
			cmd.Env = append(os.Environ(), "GOMAXPROCS=1")
			out, err := cmd.CombinedOutput()
			r := &jobResult{Scenario: s.Name}
			found := false
			for _, l := range strings.Split(string(out), "\n") {
				if strings.HasPrefix(l, "JOBRESULT ") {
					if json.Unmarshal([]byte(l[len("JOBRESULT "):]), r) == nil {
						found = true
					}
				}
			}
			if !found {
				tail := string(out)
				if len(tail) > 2000 {
					tail = tail[len(tail)-2000:]
				}
				r.Err = fmt.Sprintf("worker died: %v\n%s", err, tail)
			}
			results[i] = r
		}(i, s)
	}
	wg.Wait()

	cov := run.Coverage
	var execs, states, trans, nontriv, outcomes, maxDepth, det int
	exhaustive := true
	var perScen []map[string]interface{}
	var vacuous []string
	var samples []interface{}
	harnessErr := ""
	for _, r := range results {
		if r.Err != "" {
			harnessErr += r.Scenario + ": " + r.Err + "\n"
		}
		execs += r.Stats.Executions
		states += r.Stats.States
		trans += r.Stats.Transitions
		nontriv += r.Nontrivial
		outcomes += r.Outcomes
		det += r.Stats.DetChecked
		if r.Stats.MaxDepth > maxDepth {
			maxDepth = r.Stats.MaxDepth
		}
		if !r.Exhaustive {
			exhaustive = false
		}
		if r.Outcomes <= 1 && r.Procs > 1 && len(r.Stats.Violations) == 0 {
			vacuous = append(vacuous, r.Scenario)
		}
		perScen = append(perScen, map[string]interface{}{
			"scenario": r.Scenario, "aimed_at": r.Why, "processes": r.Procs, "preemption_bound": r.Bound,
			"executions": r.Stats.Executions, "states": r.Stats.States, "transitions": r.Stats.Transitions,
			"completed_executions": r.Stats.Completed, "cut_at_visited_state": r.Stats.Cuts, "max_choice_points": r.Stats.MaxDepth,
			"distinct_outcomes": r.Outcomes, "horizon_hits": r.Stats.HorizonHits, "cap_hit": r.Stats.CapHit,
			"exhaustive_within_bound": r.Exhaustive, "wall_s": r.Wall, "violating_signatures": len(r.Stats.Violations), "visibility_reduction_off": r.ReductionOff,
		})
		if len(r.Sample) > 0 && len(samples) < 6 {
			samples = append(samples, map[string]interface{}{"scenario": r.Scenario, "schedule": strings.Join(r.Sample, " "), "an_outcome": r.SampleOut})
		}
		for _, v := range r.Stats.Violations {
			run.Violations = append(run.Violations, report.V{
				Property: v.Property, Signature: v.Signature, Msg: v.Msg, Count: v.Count,
				Replay: map[string]interface{}{"harness": "stackmc", "scenario": v.Scenario, "choices": v.Choices, "schedule": strings.Join(compress(v.Schedule), " "), "trace": v.Trace, "message": v.Msg},
			})
		}
	}
	if harnessErr != "" {
		fmt.Println("HARNESS-ERROR", harnessErr)
		os.Exit(2)
	}
	sort.Slice(perScen, func(i, j int) bool { return perScen[i]["scenario"].(string) < perScen[j]["scenario"].(string) })
	cov["states"] = states
	cov["transitions"] = trans
	cov["traces_validated_against_impl"] = execs
	cov["evaluations"] = execs
	cov["distinct_nontrivial"] = nontriv
	cov["rule"] = "every execution is a schedule of the real stack code over the in-memory directory, enumerated by DFS over scheduling choices at each visible filesystem call, pruned only at already-expanded states; non-trivial = a completed execution with at least two context switches between unfinished processes; distinct because each is a different choice sequence"
	cov["samples"] = samples
	cov["exhaustive"] = exhaustive
	cov["scenarios"] = perScen
	cov["distinct_outcomes_total"] = outcomes
	cov["vacuous_scenarios"] = vacuous
	cov["max_choice_points"] = maxDepth
	cov["determinism_selftests"] = det
	if *bindRep != "" {
		if b, err := os.ReadFile(*bindRep); err == nil {
			var br interface{}
			json.Unmarshal(b, &br)
			cov["binding"] = br
		}
	}
	run.Assumptions = []string{
		"POSIX directory model of DESIGN.md 4.1 (O_EXCL create, atomic rename, unlink keeps open inodes); no Windows semantics, no I/O errors, no power loss",
		"processes are goroutines with private handles; package-level state is part of the state key",
		"visibility reduction: descriptor I/O on private temp/lock files and reads of write-once tables are not scheduling points (assumption checked at run time)",
		"clock frozen; random table-name suffixes are a function of (process, draw counter)",
	}
	os.Exit(run.Finish())
}

func doReplay(prop, path string) int {
	b, err := os.ReadFile(path)
	if err != nil {
		fmt.Println("HARNESS-ERROR", err)
		return 2
	}
	var v struct {
		Property  string `json:"property"`
		Signature string `json:"signature"`
		Replay    struct {
			Scenario string `json:"scenario"`
			Choices  []int  `json:"choices"`
		} `json:"replay"`
	}
	if err := json.Unmarshal(b, &v); err != nil {
		fmt.Println("HARNESS-ERROR", err)
		return 2
	}
	if prop == "" {
		prop = v.Property
	}
	for _, s := range allScenarios() {
		if s.Name != v.Replay.Scenario {
			continue
		}
		msc, err := s.build(prop)
		if err != nil {
			fmt.Println("HARNESS-ERROR", err)
			return 2
		}
		e := mc.NewExplorer(msc)
		x, err := e.Replay(v.Replay.Choices)
		if err != nil {
			fmt.Println("HARNESS-ERROR", err)
			return 2
		}
		for _, ev := range x.W.Trace {
			fmt.Println(" ", ev.String())
		}
		for _, p := range x.W.Procs {
			fmt.Printf("  p%d results: %v\n", p.ID, p.Results)
		}
		for _, viol := range x.W.Violations {
			fmt.Printf("violation: %s %s\n%s\n", viol.Property, viol.Signature, viol.Msg)
			if viol.Signature == v.Signature {
				fmt.Printf("VIOLATION property=%s replay=%s\n", viol.Property, path)
				return 1
			}
		}
		fmt.Println("the recorded violation did not recur")
		return 0
	}
	fmt.Println("HARNESS-ERROR unknown scenario", v.Replay.Scenario)
	return 2
}
