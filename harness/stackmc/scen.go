package main

import (
	"fmt"
	"sort"
	"strings"

	"github.com/google/reftable"
	"github.com/google/reftable/zz_verif/rt"

	"verif/engine/mc"
	"verif/engine/monitor"
	"verif/internal/hx"
	"verif/model/fmtspec"
	"verif/model/refdb"
)

const dir = "/d"

// step is one API call of a process program.
type step struct {
	Kind   string   // open add addition compactall range clean close read expire
	Txns   []string // transaction ids (add: one; addition: one table each)
	I, J   int      // range
	Expiry *reftable.LogExpirationConfig
	Hash   string // open: "sha1"/"s256" override
}

func (s step) label() string {
	switch s.Kind {
	case "add", "addition":
		return s.Kind + "(" + strings.Join(s.Txns, "+") + ")"
	case "range":
		return fmt.Sprintf("range(%d,%d)", s.I, s.J)
	case "compactall":
		if s.Expiry != nil {
			return fmt.Sprintf("compactall(expiry %d,%d,%d)", s.Expiry.Time, s.Expiry.MinUpdateIndex, s.Expiry.MaxUpdateIndex)
		}
	case "open":
		if s.Hash != "" {
			return "open(" + s.Hash + ")"
		}
	}
	return s.Kind
}

type procSpec struct {
	Steps   []step
	NoAuto  bool // disable auto-compaction on the handle
	Reader  bool // full scan after every completed call, reported to the snapshot monitor
	NoOpen  bool // the program opens its handle itself (first step "open")
	HashCfg string
}

type scenario struct {
	Name     string
	Init     string // empty one two three four
	Cfg      reftable.Config
	Procs    []procSpec
	Preempt  int // -1 unbounded
	Crashes  int
	Why      string
	InitAuto bool
	// MixedHash: handles are opened with different hash ids (the open-on-clone check would need to guess one)
	MixedHash bool
}

// txn builds the small transaction with the given id. Every transaction touches
// the shared ref refs/x, a ref of its own and one reflog entry, so that every lost or
// duplicated commit changes the view.
func txn(id string) hx.Txn {
	switch {
	case id == "empty":
		return hx.Txn{ID: id}
	case strings.HasPrefix(id, "name:"):
		// name:<refname> : a single ref create (for C12 under contention)
		n := strings.TrimPrefix(id, "name:")
		return hx.Txn{ID: id, Refs: []hx.RefOp{{Name: n, Kind: 1, Val: id}}}
	case strings.HasPrefix(id, "del:"):
		n := strings.TrimPrefix(id, "del:")
		return hx.Txn{ID: id, Refs: []hx.RefOp{{Name: n, Kind: 0}}}
	case strings.HasPrefix(id, "log"):
		return hx.Txn{ID: id, Refs: []hx.RefOp{{Name: "refs/x", Kind: 1, Val: id}},
			Logs: []hx.LogOp{{Name: "refs/x", Msg: id, Time: 500, Old: "o" + id, New: "n" + id}}}
	}
	return hx.Txn{ID: id,
		Refs: []hx.RefOp{{Name: "refs/t/" + id, Kind: 2, Val: id, Peeled: "p" + id}, {Name: "refs/x", Kind: 1, Val: id}},
		Logs: []hx.LogOp{{Name: "refs/x", Msg: "m " + id, Time: 1000, Old: "o" + id, New: "n" + id}},
	}
}

func hashSize(cfg reftable.Config) int {
	if cfg.HashID == reftable.SHA256ID {
		return 32
	}
	return 20
}

func hashName(cfg reftable.Config) string {
	if cfg.HashID == reftable.SHA256ID {
		return "s256"
	}
	return "sha1"
}

// initialDir builds the initial directory with the real code in atomic mode.
var initCache = map[string]map[string][]byte{}

func initialDir(kind string, cfg reftable.Config) (map[string][]byte, error) {
	key := kind + "/" + hashName(cfg)
	if m, ok := initCache[key]; ok {
		return m, nil
	}
	w := mc.NewWorld(dir)
	rt.E = w
	defer func() { rt.E = nil }()
	err := w.RunAtomic(func() error {
		w.Proc(0).ID = 0
		st, err := reftable.NewStack(dir, cfg)
		if err != nil {
			return err
		}
		st.VerifSetAutoCompact(false)
		var ids []string
		switch kind {
		case "empty":
		case "one":
			ids = []string{"i1"}
		case "two":
			ids = []string{"i1", "i2"}
		case "three":
			// the middle table holds a tombstone for a ref created in the first
			ids = []string{"i1", "del:refs/t/i1", "i3"}
		case "four":
			ids = []string{"i1", "i2", "i3", "i4"}
		default:
			return fmt.Errorf("unknown initial stack %q", kind)
		}
		for _, id := range ids {
			t := txn(id)
			if err := st.Add(func(wr *reftable.Writer) error { return t.Write(wr, st.NextUpdateIndex(), hashSize(cfg)) }); err != nil {
				return fmt.Errorf("initial Add(%s): %v", id, err)
			}
		}
		st.Close()
		return nil
	})
	if err != nil {
		return nil, err
	}
	m := w.Snapshot()
	initCache[key] = m
	return m, nil
}

func modelOf(snap map[string][]byte) (*refdb.DB, error) {
	var tabs []*fmtspec.Table
	for _, n := range strings.Split(string(snap["tables.list"]), "\n") {
		if n == "" {
			continue
		}
		t, err := fmtspec.Decode(snap[n])
		if err != nil {
			return nil, fmt.Errorf("initial table %s: %v", n, err)
		}
		tabs = append(tabs, t)
	}
	return refdb.Overlay(tabs).DropTombstones(), nil
}

// monitors installed for a property
type mons struct {
	ref  *monitor.Refinement
	snap *monitor.Snapshot
}

func (sc *scenario) build(prop string) (*mc.Scenario, error) {
	snap, err := initialDir(sc.Init, sc.Cfg)
	if err != nil {
		return nil, err
	}
	m0, err := modelOf(snap)
	if err != nil {
		return nil, err
	}
	hs := hashSize(sc.Cfg)
	build := func() *mc.World {
		w := mc.NewWorld(dir)
		w.Restore(snap)
		rt.E = w
		ms := &mons{}
		switch prop {
		case "C04":
			ms.ref = monitor.NewRefinement(prop, sc.Cfg, m0.Clone())
			w.Monitors = append(w.Monitors, ms.ref)
		case "C05":
			li := &monitor.ListIntegrity{Prop: prop, HashID: hashName(sc.Cfg), Cfg: sc.Cfg, CheckOpen: true}
			if sc.Init == "empty" {
				li.HashID = "" // decided by the first committed table
			}
			w.Monitors = append(w.Monitors, li)
		case "C08":
			w.Monitors = append(w.Monitors, &monitor.Lock{Prop: prop})
		case "C10":
			ms.snap = monitor.NewSnapshot(prop, hs)
			ms.snap.Init(w)
			w.Monitors = append(w.Monitors, ms.snap)
		case "C16":
			w.Monitors = append(w.Monitors, &monitor.Residue{Prop: prop, Holding: func(p *mc.Proc) bool { return p.Local["addition"] != nil }})
		}
		for _, ps := range sc.Procs {
			ps := ps
			var prog []mc.Call
			for _, s := range ps.Steps {
				prog = append(prog, sc.call(w, ms, ps, s, prop))
			}
			p := w.AddProc(prog)
			if !ps.NoOpen {
				cfg := sc.Cfg
				err := w.As(p.ID, func() error {
					st, err := reftable.NewStack(dir, cfg)
					if err != nil {
						return err
					}
					st.VerifSetAutoCompact(!ps.NoAuto)
					p.Local["h"] = st
					return nil
				})
				if err != nil {
					w.HarnessErr = fmt.Errorf("pre-opening handle of p%d: %v", p.ID, err)
				}
			}
		}
		w.Atomic = false
		return w
	}
	return &mc.Scenario{Name: sc.Name, Build: build, MaxPreempt: sc.Preempt, MaxCrashes: sc.Crashes, GlobalsHash: globalsHash}, nil
}

func handle(p *mc.Proc) *reftable.Stack {
	st, _ := p.Local["h"].(*reftable.Stack)
	return st
}

func (sc *scenario) call(w *mc.World, ms *mons, ps procSpec, s step, prop string) mc.Call {
	hs := hashSize(sc.Cfg)
	lbl := s.label()
	inner := func(p *mc.Proc) string {
		st := handle(p)
		if st == nil && s.Kind != "open" {
			return "nohandle"
		}
		switch s.Kind {
		case "open":
			cfg := sc.Cfg
			if s.Hash == "s256" {
				cfg.HashID = reftable.SHA256ID
			} else if s.Hash == "sha1" {
				cfg.HashID = reftable.SHA1ID
			}
			n, err := reftable.NewStack(dir, cfg)
			if err != nil {
				return hx.ErrString(err)
			}
			n.VerifSetAutoCompact(!ps.NoAuto)
			p.Local["h"] = n
			p.Local["hs"] = hashSize(cfg)
			return "ok"
		case "add":
			t := txn(s.Txns[0])
			var pend []*monitor.Pending
			myhs := hs
			if v, ok := p.Local["hs"].(int); ok {
				myhs = v
			}
			err := st.Add(func(wr *reftable.Writer) error {
				ui := st.NextUpdateIndex()
				if ms.ref != nil {
					pend = append(pend, ms.ref.Begin(p.ID, t, ui))
				}
				return t.Write(wr, ui, myhs)
			})
			res := hx.ErrString(err)
			if ms.ref != nil {
				if pend == nil && t.Empty() {
					// the callback did run for an empty transaction too; nothing to commit
				}
				ms.ref.Ack(w, p.ID, "Add", res, pendOrEmpty(pend, t), strings.HasPrefix(s.Txns[0], "name:"))
				ms.ref.Abandon(p.ID)
			}
			return res
		case "addition":
			tr, err := st.NewAddition()
			if err != nil {
				if ms.ref != nil {
					ms.ref.Ack(w, p.ID, "NewAddition", hx.ErrString(err), nil, false)
				}
				return hx.ErrString(err)
			}
			p.Local["addition"] = tr
			var pend []*monitor.Pending
			res := "ok"
			for _, id := range s.Txns {
				t := txn(id)
				err := tr.Add(func(wr *reftable.Writer) error {
					// an Addition's tables take consecutive update indices
					ui := st.NextUpdateIndex() + uint64(len(pend))
					if ms.ref != nil {
						pend = append(pend, ms.ref.Begin(p.ID, t, ui))
					}
					return t.Write(wr, ui, hs)
				})
				if err != nil {
					res = hx.ErrString(err)
					break
				}
			}
			if res == "ok" {
				res = hx.ErrString(tr.Commit())
			}
			tr.Close()
			delete(p.Local, "addition")
			if ms.ref != nil {
				ms.ref.Ack(w, p.ID, "Addition.Commit", res, pend, false)
				ms.ref.Abandon(p.ID)
			}
			return res
		case "compactall":
			if ms.ref != nil {
				ms.ref.SetExpiry(p.ID, s.Expiry)
			}
			err := st.CompactAll(s.Expiry)
			if ms.ref != nil {
				ms.ref.SetExpiry(p.ID, nil)
				if err != nil && err != reftable.ErrLockFailure {
					w.Violate(prop, "ack:unexpected-error@CompactAll:"+errClass(err.Error()), fmt.Sprintf("p%d: CompactAll failed with %q; without I/O faults only lock contention may fail it", p.ID, err))
				}
			}
			return hx.ErrString(err)
		case "range":
			if s.J >= st.VerifLen() {
				return "skip"
			}
			ok, err := st.VerifCompactRange(s.I, s.J, nil)
			if ms.ref != nil && err != nil && err != reftable.ErrLockFailure {
				w.Violate(prop, "ack:unexpected-error@compactRange:"+errClass(err.Error()), fmt.Sprintf("p%d: compactRange failed with %q; without I/O faults only lock contention may fail it", p.ID, err))
			}
			return fmt.Sprintf("%v/%s", ok, hx.ErrString(err))
		case "clean":
			return hx.ErrString(st.Clean())
		case "close":
			st.Close()
			delete(p.Local, "h")
			return "ok"
		case "read":
			return "ok"
		}
		return "?"
	}
	fn := inner
	if ps.Reader {
		fn = func(p *mc.Proc) string {
			res := inner(p)
			st := handle(p)
			if st == nil || ms.snap == nil {
				return res
			}
			// a handle whose open/Add/reload reported failure still has to read consistently
			refs, logs, err := readAllGuard(st, hs)
			names := st.VerifNames()
			view := hx.Joined(refs, logs)
			ms.snap.Observed(w, p.ID, lbl+"="+resClass(res), names, view, err)
			return res + fmt.Sprintf("|view:%x", fnv(view))
		}
	}
	return mc.Call{Label: lbl, Fn: fn}
}

func resClass(res string) string {
	if res == "ok" || res == "lockfail" {
		return res
	}
	if strings.HasPrefix(res, "true") || strings.HasPrefix(res, "false") {
		return res[:strings.Index(res, "/")]
	}
	return "err"
}

func readAllGuard(st *reftable.Stack, hs int) (refs, logs []string, err error) {
	defer func() {
		if r := recover(); r != nil {
			if fmt.Sprintf("%T", r) == "mc.killSentinel" {
				panic(r)
			}
			err = fmt.Errorf("panic: %v", r)
		}
	}()
	if st.Merged() == nil {
		return nil, nil, fmt.Errorf("handle has no merged view")
	}
	return hx.ReadAll(st.Merged(), hs)
}

func pendOrEmpty(p []*monitor.Pending, t hx.Txn) []*monitor.Pending {
	if p != nil {
		return p
	}
	return []*monitor.Pending{{Txn: t}}
}

func errClass(s string) string {
	f := strings.Fields(s)
	for i, w := range f {
		if strings.Contains(w, "0x") || strings.Contains(w, "/") {
			f[i] = "<path>"
		}
	}
	return strings.Join(f, "_")
}

func fnv(s string) uint64 {
	h := uint64(14695981039346656037)
	for i := 0; i < len(s); i++ {
		h ^= uint64(s[i])
		h *= 1099511628211
	}
	return h
}

func sortedKeys(m map[string]int) []string {
	var ks []string
	for k := range m {
		ks = append(ks, k)
	}
	sort.Strings(ks)
	return ks
}
