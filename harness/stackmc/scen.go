package main

import (
	"fmt"
	"sort"
	"strings"

	"github.com/google/reftable"
	"github.com/google/reftable/zz_verif/rt"

	"verif/engine/mc"
	"verif/engine/monitor"
	"verif/internal/hx"
	"verif/internal/stk"
)

const dir = stk.Dir

// step is one API call of a process program.
type step struct {
	Kind   string   // open add addition compactall range clean close read expire
	Txns   []string // transaction ids (add: one; addition: one table each)
	I, J   int      // range
	Expiry *reftable.LogExpirationConfig
	Hash   string // open: "sha1"/"s256" override
}

func (s step) label() string {
	switch s.Kind {
	case "add", "addition":
		return s.Kind + "(" + strings.Join(s.Txns, "+") + ")"
	case "addspan":
		return fmt.Sprintf("add(%s planned@%d..%d)", s.Txns[0], s.I, s.I+s.J)
	case "range":
		return fmt.Sprintf("range(%d,%d)", s.I, s.J)
	case "compactall":
		if s.Expiry != nil {
			return fmt.Sprintf("compactall(expiry %d,%d,%d)", s.Expiry.Time, s.Expiry.MinUpdateIndex, s.Expiry.MaxUpdateIndex)
		}
	case "open":
		if s.Hash != "" {
			return "open(" + s.Hash + ")"
		}
	}
	return s.Kind
}

type procSpec struct {
	Steps   []step
	NoAuto  bool // disable auto-compaction on the handle
	Reader  bool // full scan after every completed call, reported to the snapshot monitor
	NoOpen  bool // the program opens its handle itself (first step "open")
	HashCfg string
}

type scenario struct {
	Name    string
	Init    string // empty one two three four
	Cfg     reftable.Config
	Procs   []procSpec
	Preempt int // -1 unbounded
	Crashes int
	Faults  int // injected I/O faults per execution (EIO on one filesystem call)
	// FaultEnum: process 0's program is run once for EVERY filesystem call it makes (reads and writes
	// included), with that call failing with EIO; faultAt is the ordinal of the current run
	FaultEnum bool
	faultAt   int
	// FaultMode: "" a failing call has no effect and reports EIO; "short" a failing write stores half of its
	// bytes first (ENOSPC); "sticky" after the first failure every later create/write of that process fails too
	FaultMode string
	// allVisible: every filesystem call is a scheduling point (the visibility reduction is switched off
	// because the code under test turned out to read another process's temporary or lock files)
	allVisible bool
	Why        string
	InitAuto  bool
	// MixedHash: handles are opened with different hash ids (the open-on-clone check would need to guess one)
	MixedHash bool
}

// monitors installed for a property
type mons struct {
	ref  *monitor.Refinement
	snap *monitor.Snapshot
}

func (sc *scenario) build(prop string) (*mc.Scenario, error) {
	snap, err := stk.InitialDir(sc.Init, sc.Cfg)
	if err != nil {
		return nil, err
	}
	m0, err := stk.ModelOf(snap)
	if err != nil {
		return nil, err
	}
	hs := stk.HashSize(sc.Cfg)
	build := func() *mc.World {
		w := mc.NewWorld(dir)
		w.Restore(snap)
		w.AllVisible = sc.allVisible
		rt.E = w
		ms := &mons{}
		switch prop {
		case "C04":
			ms.ref = monitor.NewRefinement(prop, sc.Cfg, m0.Clone())
			ms.ref.Relaxed = sc.Faults > 0 || sc.FaultEnum
			w.Monitors = append(w.Monitors, ms.ref)
		case "C05":
			li := &monitor.ListIntegrity{Prop: prop, HashID: stk.HashName(sc.Cfg), Cfg: sc.Cfg, CheckOpen: true}
			if sc.Init == "empty" || sc.Init == "orphan-empty" {
				li.HashID = "" // decided by the first committed table
			}
			w.Monitors = append(w.Monitors, li)
		case "C08":
			w.Monitors = append(w.Monitors, &monitor.Lock{Prop: prop})
		case "C10":
			ms.snap = monitor.NewSnapshot(prop, hs)
			ms.snap.Init(w)
			w.Monitors = append(w.Monitors, ms.snap)
		case "C16":
			// files that were already stale when the scenario starts (left by processes killed earlier) need not be
			// removed by anybody: the property only demands that Close and Clean remove nothing else
			stale := map[string]bool{}
			listed0 := map[string]bool{"tables.list": true}
			for _, n := range strings.Split(string(snap["tables.list"]), "\n") {
				listed0[n] = true
			}
			for n := range snap {
				if !listed0[n] {
					stale[n] = true
				}
			}
			w.Monitors = append(w.Monitors, &monitor.Residue{Prop: prop, Stale: stale, Holding: func(p *mc.Proc) bool { return p.Local["addition"] != nil }})
		}
		for _, ps := range sc.Procs {
			ps := ps
			var prog []mc.Call
			for _, s := range ps.Steps {
				prog = append(prog, sc.call(w, ms, ps, s, prop))
			}
			p := w.AddProc(prog)
			if !ps.NoOpen {
				cfg := sc.Cfg
				err := w.As(p.ID, func() error {
					st, err := reftable.NewStack(dir, cfg)
					if err != nil {
						return err
					}
					st.VerifSetAutoCompact(!ps.NoAuto)
					p.Local["h"] = st
					return nil
				})
				if err != nil {
					w.HarnessErr = fmt.Errorf("pre-opening handle of p%d: %v", p.ID, err)
				}
			}
			p.OpCount = 0
			p.FaultShort = sc.FaultMode == "short"
			p.FaultSticky = sc.FaultMode == "sticky"
			if sc.FaultEnum && p.ID == 0 {
				p.FaultAt = sc.faultAt
			}
		}
		w.Atomic = false
		return w
	}
	return &mc.Scenario{Name: sc.Name, Build: build, MaxPreempt: sc.Preempt, MaxCrashes: sc.Crashes, MaxFaults: sc.Faults, GlobalsHash: globalsHash, DeadlockProp: prop}, nil
}

func handle(p *mc.Proc) *reftable.Stack {
	st, _ := p.Local["h"].(*reftable.Stack)
	return st
}

func (sc *scenario) call(w *mc.World, ms *mons, ps procSpec, s step, prop string) mc.Call {
	hs := stk.HashSize(sc.Cfg)
	lbl := s.label()
	inner := func(p *mc.Proc) string {
		st := handle(p)
		if st == nil && s.Kind != "open" {
			return "nohandle"
		}
		switch s.Kind {
		case "open":
			cfg := sc.Cfg
			if s.Hash == "s256" {
				cfg.HashID = reftable.SHA256ID
			} else if s.Hash == "sha1" {
				cfg.HashID = reftable.SHA1ID
			}
			n, err := reftable.NewStack(dir, cfg)
			if err != nil {
				return hx.ErrString(err)
			}
			n.VerifSetAutoCompact(!ps.NoAuto)
			p.Local["h"] = n
			p.Local["hs"] = stk.HashSize(cfg)
			return "ok"
		case "add", "addspan":
			t := stk.Txn(s.Txns[0])
			if s.Kind == "addspan" {
				t.Span = uint64(s.J)
			}
			var pend []*monitor.Pending
			myhs := hs
			if v, ok := p.Local["hs"].(int); ok {
				myhs = v
			}
			err := st.Add(func(wr *reftable.Writer) error {
				ui := st.NextUpdateIndex()
				if s.Kind == "addspan" {
					// a batch planned earlier: the caller fixed its update indices before taking the lock
					ui = uint64(s.I)
				}
				if ms.ref != nil {
					pend = append(pend, ms.ref.Begin(p.ID, t, ui))
				}
				return t.Write(wr, ui, myhs)
			})
			res := hx.ErrString(err)
			if ms.ref != nil {
				if pend == nil && t.Empty() {
					// the callback did run for an empty transaction too; nothing to commit
				}
				ms.ref.Ack(w, p.ID, "Add", res, pendOrEmpty(pend, t), strings.HasPrefix(s.Txns[0], "name:"))
				ms.ref.Abandon(p.ID)
			}
			return res
		case "addition":
			tr, err := st.NewAddition()
			if err != nil {
				if ms.ref != nil {
					ms.ref.Ack(w, p.ID, "NewAddition", hx.ErrString(err), nil, false)
				}
				return hx.ErrString(err)
			}
			p.Local["addition"] = tr
			var pend []*monitor.Pending
			res := "ok"
			for _, id := range s.Txns {
				t := stk.Txn(id)
				err := tr.Add(func(wr *reftable.Writer) error {
					// an Addition's tables take consecutive update indices
					ui := st.NextUpdateIndex() + uint64(len(pend))
					if ms.ref != nil {
						pend = append(pend, ms.ref.Begin(p.ID, t, ui))
					}
					return t.Write(wr, ui, hs)
				})
				if err != nil {
					res = hx.ErrString(err)
					break
				}
			}
			if res == "ok" {
				res = hx.ErrString(tr.Commit())
			}
			tr.Close()
			delete(p.Local, "addition")
			if ms.ref != nil {
				ms.ref.Ack(w, p.ID, "Addition.Commit", res, pend, false)
				ms.ref.Abandon(p.ID)
			}
			return res
		case "compactall":
			if ms.ref != nil {
				ms.ref.SetExpiry(p.ID, s.Expiry)
			}
			err := st.CompactAll(s.Expiry)
			if ms.ref != nil {
				ms.ref.SetExpiry(p.ID, nil)
				if err != nil && err != reftable.ErrLockFailure && sc.Faults == 0 && !sc.FaultEnum {
					w.Violate(prop, "ack:unexpected-error@CompactAll:"+errClass(err.Error()), fmt.Sprintf("p%d: CompactAll failed with %q; without I/O faults only lock contention may fail it", p.ID, err))
				}
			}
			return hx.ErrString(err)
		case "range":
			if s.J >= st.VerifLen() {
				return "skip"
			}
			ok, err := st.VerifCompactRange(s.I, s.J, nil)
			if ms.ref != nil && err != nil && err != reftable.ErrLockFailure && sc.Faults == 0 && !sc.FaultEnum {
				w.Violate(prop, "ack:unexpected-error@compactRange:"+errClass(err.Error()), fmt.Sprintf("p%d: compactRange failed with %q; without I/O faults only lock contention may fail it", p.ID, err))
			}
			return fmt.Sprintf("%v/%s", ok, hx.ErrString(err))
		case "clean":
			return hx.ErrString(st.Clean())
		case "close":
			st.Close()
			delete(p.Local, "h")
			return "ok"
		case "read":
			return "ok"
		case "reload":
			return hx.ErrString(st.VerifReload())
		}
		return "?"
	}
	fn := inner
	if ps.Reader {
		fn = func(p *mc.Proc) string {
			startIdx := -1
			if ms.snap != nil {
				startIdx = ms.snap.CurrentIndex()
			}
			res := inner(p)
			st := handle(p)
			if st == nil || ms.snap == nil {
				return res
			}
			// a handle whose open/Add/reload reported failure still has to read consistently
			// the observation itself is exempt from injected faults and does not count as program calls
			savedAt, savedCount := p.FaultAt, p.OpCount
			p.FaultAt = 0
			refs, logs, err := readAllGuard(st, hs)
			p.FaultAt, p.OpCount = savedAt, savedCount
			names := st.VerifNames()
			view := hx.Joined(refs, logs)
			ms.snap.Observed(w, p.ID, lbl+"="+resClass(res), names, view, err)
			if err == nil && res == "ok" && (s.Kind == "reload" || s.Kind == "open" || s.Kind == "add") {
				ms.snap.NotOlderThan(w, p.ID, lbl, names, startIdx)
			}
			return res + fmt.Sprintf("|view:%x", fnv(view))
		}
	}
	return mc.Call{Label: lbl, Fn: fn}
}

func resClass(res string) string {
	if res == "ok" || res == "lockfail" {
		return res
	}
	if strings.HasPrefix(res, "true") || strings.HasPrefix(res, "false") {
		return res[:strings.Index(res, "/")]
	}
	return "err"
}

func readAllGuard(st *reftable.Stack, hs int) (refs, logs []string, err error) {
	defer func() {
		if r := recover(); r != nil {
			if fmt.Sprintf("%T", r) == "mc.killSentinel" {
				panic(r)
			}
			err = fmt.Errorf("panic: %v", r)
		}
	}()
	if st.Merged() == nil {
		return nil, nil, fmt.Errorf("handle has no merged view")
	}
	return hx.ReadAll(st.Merged(), hs)
}

func pendOrEmpty(p []*monitor.Pending, t hx.Txn) []*monitor.Pending {
	if p != nil {
		return p
	}
	return []*monitor.Pending{{Txn: t}}
}

func errClass(s string) string {
	f := strings.Fields(s)
	for i, w := range f {
		if strings.Contains(w, "0x") || strings.Contains(w, "/") {
			f[i] = "<path>"
		}
	}
	return strings.Join(f, "_")
}

func fnv(s string) uint64 {
	h := uint64(14695981039346656037)
	for i := 0; i < len(s); i++ {
		h ^= uint64(s[i])
		h *= 1099511628211
	}
	return h
}

func sortedKeys(m map[string]int) []string {
	var ks []string
	for k := range m {
		ks = append(ks, k)
	}
	sort.Strings(ks)
	return ks
}
