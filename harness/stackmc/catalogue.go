package main

import (
	"github.com/google/reftable"
)

func add(id string) step          { return step{Kind: "add", Txns: []string{id}} }
func rng(i, j int) step           { return step{Kind: "range", I: i, J: j} }
func compactAll() step            { return step{Kind: "compactall"} }
func st(kind string) step         { return step{Kind: kind} }
func addition(ids ...string) step { return step{Kind: "addition", Txns: ids} }

func P(steps ...step) procSpec       { return procSpec{Steps: steps} }
func PNoAuto(steps ...step) procSpec { return procSpec{Steps: steps, NoAuto: true} }
func Reader(steps ...step) procSpec  { return procSpec{Steps: steps, Reader: true} }

var sha256Cfg = reftable.Config{HashID: reftable.SHA256ID}

func allScenarios() []*scenario {
	exp := &reftable.LogExpirationConfig{Time: 800}
	base := []*scenario{
		{Name: "S1-empty", Init: "empty", Procs: []procSpec{P(add("a")), P(add("b"))}, Preempt: -1,
			Why: "Add ‖ Add from an empty directory: lock contention, first creation of tables.list, acknowledgements"},
		{Name: "S1-one", Init: "one", Procs: []procSpec{P(add("a")), P(add("b"))}, Preempt: -1,
			Why: "Add ‖ Add from one table with auto-compaction: the winner's compaction races the loser's retry-less failure"},
		{Name: "S2", Init: "two", Procs: []procSpec{PNoAuto(add("a")), PNoAuto(compactAll())}, Preempt: -1,
			Why: "Add ‖ CompactAll: the window after compaction drops the list lock (lost update)"},
		{Name: "S3", Init: "empty", Procs: []procSpec{P(add("a"), add("b")), P(add("c"), add("d"))}, Preempt: -1,
			Why: "Add;Add ‖ Add;Add with auto-compaction: compaction started by one, commit by the other"},
		{Name: "S4", Init: "four", Procs: []procSpec{PNoAuto(rng(0, 1)), PNoAuto(rng(2, 3))}, Preempt: -1,
			Why: "two disjoint range compactions: each rewrites the list"},
		{Name: "S4b", Init: "four", Procs: []procSpec{PNoAuto(rng(0, 2)), PNoAuto(rng(1, 3))}, Preempt: -1,
			Why: "two overlapping range compactions: table locks must exclude each other"},
		{Name: "S5", Init: "two", Procs: []procSpec{PNoAuto(compactAll()), PNoAuto(add("a")), PNoAuto(add("b"))}, Preempt: -1,
			Why: "CompactAll ‖ Add ‖ Add: the loser of the re-lock must not delete the winner's lock"},
		{Name: "S5b", Init: "one", Procs: []procSpec{P(add("a")), P(add("b")), P(add("c"))}, Preempt: -1,
			Why: "three auto-compacting Adds"},
		{Name: "S6", Init: "two", Procs: []procSpec{Reader(st("read"), add("r1"), st("read")), PNoAuto(add("a"), compactAll())}, Preempt: -1,
			Why: "reader {read; Add(→reload on failure); read} ‖ {Add; CompactAll}"},
		{Name: "S6p", Init: "two", Procs: []procSpec{Reader(st("read"), add("r1"), st("read")), PNoAuto(add("a"), rng(1, 2))}, Preempt: -1,
			Why: "reader ‖ {Add; partial-range compaction}: the next list still names a table the failed reload reused"},
		{Name: "S6o", Init: "two", Procs: []procSpec{{Steps: []step{{Kind: "open"}, st("read"), add("r1")}, Reader: true, NoOpen: true}, PNoAuto(add("a"), compactAll())}, Preempt: -1,
			Why: "a handle being opened while another adds and compacts: open retries when a table vanished"},
		{Name: "S6-3", Init: "two", Procs: []procSpec{Reader(st("read"), add("r1"), st("read")), PNoAuto(add("a"), rng(1, 2)), PNoAuto(add("b"))}, Preempt: 2,
			Why: "reader ‖ {Add; range} ‖ Add, preemption-bounded"},
		{Name: "S7-close", Init: "two", Procs: []procSpec{P(st("close")), P(add("a"))}, Preempt: -1,
			Why: "Close ‖ auto-compacting Add: Close must not unlink listed tables"},
		{Name: "S7-close-partial", Init: "three", Procs: []procSpec{PNoAuto(st("close")), PNoAuto(rng(0, 1))}, Preempt: -1,
			Why: "Close of a handle that goes stale through a compaction BELOW a table it keeps: the kept table is still listed and must not be unlinked"},
		{Name: "S7-clean", Init: "two", Procs: []procSpec{P(st("clean")), P(add("a"))}, Preempt: -1,
			Why: "Clean ‖ auto-compacting Add: GC safety"},
		{Name: "S7-clean-compact", Init: "three", Procs: []procSpec{PNoAuto(st("clean")), PNoAuto(compactAll())}, Preempt: -1,
			Why: "Clean ‖ CompactAll"},
		{Name: "S8", Init: "one", Procs: []procSpec{PNoAuto(addition("a", "b")), PNoAuto(add("c"))}, Preempt: -1,
			Why: "two-table Addition ‖ Add: multi-table transaction atomicity"},
		{Name: "S9", Init: "two", Procs: []procSpec{PNoAuto(step{Kind: "compactall", Expiry: exp}), PNoAuto(add("log1"))}, Preempt: -1,
			Why: "CompactAll(expiry) ‖ Add(log): expiry with a concurrent commit"},
		{Name: "S10", Init: "empty", Procs: []procSpec{PNoAuto(add("name:a")), PNoAuto(add("name:a/b"), add("name:a/b"))}, Preempt: -1,
			Why: "Add(a) ‖ Add(a/b);retry with name checking: the retry is rejected by the name check once a is committed"},
		{Name: "S18-reject", Init: "one", Procs: []procSpec{P(add("name:refs/x/y"), add("b")), P(add("c"))}, Preempt: -1,
			Why: "a transaction rejected by the name check (refs/x exists) ‖ Add: a rejected transaction leaves no effect and no residue"},
		{Name: "S12", Init: "two", Procs: []procSpec{PNoAuto(add("a")), PNoAuto(add("b")), PNoAuto(compactAll()), Reader(st("read"), add("r1"))}, Preempt: 2,
			Why: "Add ‖ Add ‖ CompactAll ‖ reader: four processes, preemption-bounded"},
		{Name: "S13", Init: "empty", Procs: []procSpec{
			{Steps: []step{{Kind: "open", Hash: "sha1"}, add("a")}, NoOpen: true, NoAuto: true},
			{Steps: []step{{Kind: "open", Hash: "s256"}, add("b"), add("c")}, NoOpen: true, NoAuto: true}}, Preempt: -1, MixedHash: true,
			Why: "handles opened with different hash ids on one empty directory: the stack's hash type is that of the first committed table"},
		{Name: "S14", Init: "one", Procs: []procSpec{PNoAuto(add("empty")), PNoAuto(add("a"))}, Preempt: -1,
			Why: "Add(empty transaction) ‖ Add: succeeds without creating a table"},
		{Name: "S15-crash", Init: "two", Procs: []procSpec{P(add("a")), PNoAuto(add("b"), compactAll())}, Preempt: 2, Crashes: 1,
			Why: "crash of either process as a choice at any scheduling point while the other continues"},
		{Name: "S17-gc-empty", Init: "empty", Procs: []procSpec{P(st("clean"), st("close")), P(add("a"))}, Preempt: -1,
			Why: "Clean and Close on a stack that is (or may still be) empty ‖ Add"},
		{Name: "S19-span", Init: "one", Procs: []procSpec{
			PNoAuto(step{Kind: "addspan", Txns: []string{"a"}, I: 2, J: 1}, step{Kind: "addspan", Txns: []string{"a2"}, I: 2, J: 1}),
			PNoAuto(add("b"))}, Preempt: -1,
			Why: "a batch planned over update indices [2,3] and retried unchanged ‖ Add: a table whose range starts at or below the stack's top must be refused"},
		{Name: "S6q", Init: "three", Procs: []procSpec{PNoAuto(rng(0, 1), add("a"), add("b"), rng(2, 3)), Reader(st("read"), add("r1"), st("read"))}, Preempt: -1,
			Why: "reader reloads while the other handle compacts BELOW a table the reader keeps, adds on top and compacts the additions: reused readers are not a prefix of the new list"},
		{Name: "S6q-b2", Init: "three", Procs: []procSpec{PNoAuto(rng(0, 1), add("a"), add("b"), rng(2, 3)), Reader(st("read"), add("r1"), st("read"))}, Preempt: 2,
			Why: "as S6q with at most 2 preemptions (quick tier)"},
		{Name: "F1-fault-compact-add", Init: "two", Procs: []procSpec{PNoAuto(compactAll()), PNoAuto(add("a"))}, Preempt: -1, Faults: 1,
			Why: "CompactAll ‖ Add with one injected I/O fault (EIO on any create/open/rename/read/write call of either): locks, list integrity and residue must survive failed calls"},
		{Name: "F2-fault-add-add", Init: "one", Procs: []procSpec{P(add("a")), P(add("b"))}, Preempt: -1, Faults: 1,
			Why: "auto-compacting Add ‖ Add with one injected I/O fault"},
		{Name: "F3-fault-range-range", Init: "four", Procs: []procSpec{PNoAuto(rng(0, 2)), PNoAuto(rng(1, 3))}, Preempt: 2, Faults: 1,
			Why: "overlapping range compactions with one injected I/O fault"},
		{Name: "S16c", Init: "cancel", Procs: []procSpec{PNoAuto(rng(0, 1), st("read")), Reader(st("read"), add("a"), st("read"))}, Preempt: -1,
			Why: "compaction of a bottom range that cancels out entirely (no output table) while tables above it stay listed ‖ reader/adder"},
		{Name: "S6r", Init: "two", Procs: []procSpec{PNoAuto(add("a"), rng(1, 2)), Reader(st("read"), st("reload"), st("read"))}, Preempt: -1,
			Why: "an explicit reload racing with add + partial compaction: a reload that reports success must settle on a version at least as new as the one current when it started"},
		{Name: "S12-b3", Init: "two", Procs: []procSpec{PNoAuto(add("a")), PNoAuto(add("b")), PNoAuto(compactAll()), Reader(st("read"), add("r1"))}, Preempt: 3,
			Why: "as S12 with at most 3 preemptions (thorough tier)"},
		{Name: "S20", Init: "one", Procs: []procSpec{P(add("a")), P(add("b")), P(add("c")), PNoAuto(compactAll(), add("d"))}, Preempt: 2,
			Why: "three auto-compacting Adds ‖ {CompactAll; Add}: four processes, at most 2 preemptions"},
		{Name: "S21", Init: "four", Procs: []procSpec{PNoAuto(rng(0, 1)), PNoAuto(rng(2, 3)), PNoAuto(rng(1, 2)), P(add("a"))}, Preempt: 2,
			Why: "three range compactions (two disjoint, one overlapping both) ‖ auto-compacting Add: four processes, at most 2 preemptions"},
		{Name: "S8-3", Init: "one", Procs: []procSpec{PNoAuto(addition("a", "b", "c")), P(add("d"))}, Preempt: -1,
			Why: "three-table Addition ‖ auto-compacting Add"},
		{Name: "S2-high", Init: "high2", Procs: []procSpec{P(add("a")), PNoAuto(compactAll())}, Preempt: -1,
			Why: "Add ‖ CompactAll on a stack whose update indices start at 2^32"},
		{Name: "S1-skipname", Init: "one", Cfg: reftable.Config{SkipNameCheck: true}, Procs: []procSpec{P(add("a")), P(add("b"))}, Preempt: -1,
			Why: "Add ‖ Add with name checking disabled (the check-addition path is skipped)"},
		{Name: "F4-fault-addition", Init: "cancel", Procs: []procSpec{PNoAuto(addition("a", "b")), PNoAuto(rng(0, 1))}, Preempt: -1, Faults: 1,
			Why: "two-table Addition ‖ compaction of a cancelling range, with one injected I/O fault"},
		{Name: "F5-fault-reader", Init: "two", Procs: []procSpec{PNoAuto(add("a"), rng(1, 2)), Reader(st("read"), st("reload"), st("read"))}, Preempt: 2, Faults: 1,
			Why: "reader reloading ‖ add + partial compaction with one injected I/O fault (C05/C16 only)"},
		{Name: "S19-span-skipname", Init: "one", Cfg: reftable.Config{SkipNameCheck: true}, Procs: []procSpec{
			PNoAuto(step{Kind: "addspan", Txns: []string{"a"}, I: 2, J: 1}, step{Kind: "addspan", Txns: []string{"a2"}, I: 2, J: 1}),
			PNoAuto(add("b"))}, Preempt: -1,
			Why: "as S19-span with name checking disabled: the update-index guard must not depend on the name check"},
		{Name: "F6-fault-stale-retry", Init: "two", Procs: []procSpec{PNoAuto(add("a"), rng(0, 1)), PNoAuto(add("b"), add("b2"))}, Preempt: 2, Faults: 1,
			Why: "a stale handle whose refresh fails with an injected I/O error and which then retries: it must still not commit a list built from its stale stack"},
		{Name: "S9-stale", Init: "two", Procs: []procSpec{PNoAuto(add("log1")), PNoAuto(step{Kind: "compactall", Expiry: exp})}, Preempt: -1,
			Why: "CompactAll with expiry through a handle that may be stale ‖ Add"},
		{Name: "E1-faultenum-add", Init: "two", FaultEnum: true, Preempt: 0, Procs: []procSpec{Reader(add("a"), st("read"), add("a2"), st("close")), PNoAuto(add("s"), add("s2"), st("clean"))},
			Why: "every filesystem call of an auto-compacting Add (then a second Add and Close) fails in turn; afterwards a second handle adds, retries and cleans"},
		{Name: "E2-faultenum-compact", Init: "three", FaultEnum: true, Preempt: 0, Procs: []procSpec{{Steps: []step{compactAll(), st("read"), add("a")}, Reader: true, NoAuto: true}, PNoAuto(add("s"), add("s2"))},
			Why: "every filesystem call of CompactAll (then an Add) fails in turn"},
		{Name: "E3-faultenum-addition", Init: "one", FaultEnum: true, Preempt: 0, Procs: []procSpec{{Steps: []step{addition("a", "b"), st("read"), rng(0, 1)}, Reader: true, NoAuto: true}, PNoAuto(add("s"), add("s2"))},
			Why: "every filesystem call of a two-table Addition (then a range compaction) fails in turn"},
		{Name: "E4-faultenum-gc", Init: "cancel", FaultEnum: true, Preempt: 0, Procs: []procSpec{{Steps: []step{rng(0, 1), st("clean"), st("reload"), st("close")}, Reader: true, NoAuto: true}, PNoAuto(add("s"), add("s2"))},
			Why: "every filesystem call of a cancelling compaction, Clean, reload and Close fails in turn"},
		{Name: "E5-faultenum-open", Init: "three", FaultEnum: true, Preempt: 0, Procs: []procSpec{{Steps: []step{{Kind: "open"}, st("read"), add("a")}, Reader: true, NoOpen: true}, PNoAuto(add("s"))},
			Why: "every filesystem call of NewStack (then an Add) fails in turn"},
		{Name: "E6-faultenum-expire", Init: "two", FaultEnum: true, Preempt: 0, Procs: []procSpec{{Steps: []step{{Kind: "compactall", Expiry: exp}, st("read"), {Kind: "compactall", Expiry: exp}, st("read"), add("a")}, Reader: true, NoAuto: true}, PNoAuto(add("s"), add("s2"))},
			Why: "every filesystem call of an expiring CompactAll and of a second one over the single resulting table fails in turn"},
		{Name: "S17-gc-orphan-empty", Init: "orphan-empty", Procs: []procSpec{P(st("clean"), st("close")), P(add("a"), st("clean"))}, Preempt: -1,
			Why: "Clean and Close on an empty stack next to an unlisted complete table (left by a process killed during the very first Add) ‖ Add; Clean"},
		{Name: "S14-3", Init: "one", Procs: []procSpec{PNoAuto(add("empty")), PNoAuto(add("a")), PNoAuto(add("b"))}, Preempt: 3,
			Why: "Add(empty transaction) ‖ Add ‖ Add: the empty transaction's lock handling must not disturb two real writers (at most 3 preemptions)"},
		{Name: "S22", Init: "four", Procs: []procSpec{PNoAuto(rng(0, 1)), PNoAuto(rng(2, 3), add("e"))}, Preempt: -1,
			Why: "compaction of the bottom pair ‖ {compaction of the top pair; Add}: the list changes under the first compaction's merge while keeping its length"},
		{Name: "S23-cancel-all", Init: "cancel2", Procs: []procSpec{PNoAuto(compactAll(), st("read")), P(add("a"), add("b"))}, Preempt: -1,
			Why: "CompactAll of a stack that cancels out entirely (no table is left) ‖ Add; Add"},
		{Name: "S16", Init: "three", Procs: []procSpec{PNoAuto(rng(1, 2)), PNoAuto(add("a"))}, Preempt: -1,
			Why: "partial-range compaction over a tombstone ‖ Add"},
	}
	var out []*scenario
	for _, s := range base {
		out = append(out, s)
		if s.Name == "S13" {
			continue
		}
		c := *s
		c.Name = s.Name + "@s256"
		c.Cfg.HashID = reftable.SHA256ID
		out = append(out, &c)
	}
	// Deepened variants, explored in the thorough tier only (the quick tier selects scenarios by name):
	// one more preemption for the preemption-bounded scenarios, and one crash / one injected I/O fault as an
	// additional deviation for every plain scenario of at most three processes.
	// Fault flavours: every fault scenario also runs with short writes (a failing write stores half of its
	// bytes and reports ENOSPC) and with a disk that stays full (after the first failure every later create
	// and write of that process fails too).
	for _, s := range base {
		if !s.FaultEnum && s.Faults == 0 {
			continue
		}
		for _, mode := range []string{"short", "sticky"} {
			c := *s
			c.Name = s.Name + "+" + mode
			c.FaultMode = mode
			c.Why = s.Why + map[string]string{"short": " [failing writes are short writes]", "sticky": " [the disk stays full for the process once a call failed]"}[mode]
			out = append(out, &c)
		}
	}
	for _, s := range base {
		if s.FaultEnum || s.MixedHash {
			continue
		}
		if s.Preempt >= 1 {
			c := *s
			c.Name = s.Name + "+deep"
			c.Preempt = s.Preempt + 1
			c.Why = s.Why + " [one more preemption]"
			out = append(out, &c)
		}
		if s.Crashes == 0 && s.Faults == 0 && len(s.Procs) <= 3 {
			c := *s
			c.Name = s.Name + "+crash"
			c.Crashes = 1
			c.Why = s.Why + " [plus one crash of any process at any scheduling point]"
			out = append(out, &c)
			f := *s
			f.Name = s.Name + "+fault"
			f.Faults = 1
			f.Why = s.Why + " [plus one injected I/O fault at any filesystem call]"
			out = append(out, &f)
		}
	}
	return out
}

var quickSets = map[string][]string{
	"C04": {"S1-empty", "S1-one", "S2", "S5", "S8", "S14", "S9", "S1-one@s256", "S10", "S18-reject", "S19-span", "S3", "S12", "S16", "S2@s256", "S20", "S21", "S15-crash", "S7-close", "S7-clean", "S7-close-partial", "S17-gc-empty", "S6p", "S16c", "S8-3", "S2-high", "S1-skipname", "S1-empty@s256", "S16c@s256", "S19-span-skipname", "F6-fault-stale-retry", "F1-fault-compact-add", "S9-stale", "S7-clean-compact", "E1-faultenum-add", "E2-faultenum-compact", "E3-faultenum-addition", "E4-faultenum-gc", "E5-faultenum-open", "E6-faultenum-expire", "S22", "S23-cancel-all", "S14-3", "E1-faultenum-add+short", "E2-faultenum-compact+short", "E3-faultenum-addition+short", "E4-faultenum-gc+short", "E5-faultenum-open+short", "E6-faultenum-expire+short", "E1-faultenum-add+sticky", "E2-faultenum-compact+sticky", "E3-faultenum-addition+sticky", "E4-faultenum-gc+sticky", "E5-faultenum-open+sticky", "E6-faultenum-expire+sticky"},
	"C05": {"S1-one", "S2", "S3", "S4", "S4b", "S16c", "S20", "S21", "S8-3", "S2-high", "F4-fault-addition", "F5-fault-reader", "S5@s256", "S19-span-skipname", "F6-fault-stale-retry", "S9-stale", "E1-faultenum-add", "E2-faultenum-compact", "E3-faultenum-addition", "E4-faultenum-gc", "E5-faultenum-open", "S7-clean-compact", "S18-reject", "S19-span", "S6p", "S6q-b2", "S7-close-partial", "F1-fault-compact-add", "F2-fault-add-add", "S5", "S7-close", "S7-clean", "S13", "S15-crash", "S16", "E6-faultenum-expire", "S17-gc-orphan-empty", "S22", "S23-cancel-all", "S14-3", "E1-faultenum-add+short", "E2-faultenum-compact+short", "E3-faultenum-addition+short", "E4-faultenum-gc+short", "E5-faultenum-open+short", "E6-faultenum-expire+short", "E1-faultenum-add+sticky", "E2-faultenum-compact+sticky", "E3-faultenum-addition+sticky", "E4-faultenum-gc+sticky", "E5-faultenum-open+sticky", "E6-faultenum-expire+sticky", "F1-fault-compact-add+sticky", "F2-fault-add-add+short"},
	"C08": {"S1-one", "S2", "S4b", "S5", "S5b", "S8", "S7-clean", "S20", "S21", "S8-3", "F4-fault-addition", "S4b@s256", "F1-fault-compact-add", "F2-fault-add-add", "F3-fault-range-range", "S23-cancel-all", "S14", "S22", "S14-3", "F1-fault-compact-add+sticky", "F2-fault-add-add+short", "F3-fault-range-range+sticky"},
	"C10": {"S6", "S6p", "S6o", "S6q-b2", "S1-one", "S12", "S6-3", "S6p@s256", "S6r", "S16c", "S16c@s256", "S2-high", "E1-faultenum-add", "E2-faultenum-compact", "E3-faultenum-addition", "E4-faultenum-gc", "E5-faultenum-open", "E6-faultenum-expire", "E1-faultenum-add+short", "E2-faultenum-compact+short", "E3-faultenum-addition+short", "E4-faultenum-gc+short", "E5-faultenum-open+short", "E6-faultenum-expire+short", "E1-faultenum-add+sticky", "E2-faultenum-compact+sticky", "E3-faultenum-addition+sticky", "E4-faultenum-gc+sticky", "E5-faultenum-open+sticky", "E6-faultenum-expire+sticky"},
	"C16": {"S1-empty", "S1-one", "S2", "S4", "S4b", "S16c", "S20", "S21", "S8-3", "S2-high", "S1-skipname", "F6-fault-stale-retry", "S9-stale", "E1-faultenum-add", "E2-faultenum-compact", "E3-faultenum-addition", "E4-faultenum-gc", "E5-faultenum-open", "F4-fault-addition", "F5-fault-reader", "S2@s256", "S18-reject", "S7-close-partial", "F1-fault-compact-add", "F2-fault-add-add", "S5", "S7-close", "S7-clean", "S7-clean-compact", "S8", "S10", "S17-gc-empty", "E6-faultenum-expire", "S17-gc-orphan-empty", "S23-cancel-all", "S14", "S14-3", "E1-faultenum-add+short", "E2-faultenum-compact+short", "E3-faultenum-addition+short", "E4-faultenum-gc+short", "E5-faultenum-open+short", "E6-faultenum-expire+short", "E1-faultenum-add+sticky", "E2-faultenum-compact+sticky", "E3-faultenum-addition+sticky", "E4-faultenum-gc+sticky", "E5-faultenum-open+sticky", "E6-faultenum-expire+sticky", "F1-fault-compact-add+sticky", "F2-fault-add-add+short", "F4-fault-addition+sticky"},
}

func catalogue(prop, tier string) []*scenario {
	all := allScenarios()
	if tier == "thorough" {
		var out []*scenario
		for _, s := range all {
			if prop == "C08" && s.FaultEnum {
				continue // single-writer fault enumeration: nothing to contend for
			}
			if prop == "C10" && s.Faults > 0 {
				continue // C10's reader may legitimately see its own calls fail
			}
			if prop == "C04" && s.MixedHash {
				// the refinement monitor models one hash size; S13's oracle is C05's list-integrity monitor
				continue
			}
			if prop == "C10" {
				// the snapshot property needs a reading process
				hasReader := false
				for _, p := range s.Procs {
					hasReader = hasReader || p.Reader
				}
				if !hasReader {
					continue
				}
			}
			out = append(out, s)
		}
		return out
	}
	var out []*scenario
	for _, n := range quickSets[prop] {
		for _, s := range all {
			if s.Name == n {
				out = append(out, s)
			}
		}
	}
	return out
}
