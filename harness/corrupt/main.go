// Command corrupt decides C18 by deviation-bounded corruption: every single-byte
// substitution (from a value alphabet; all 256 values in the thorough tier), every
// truncation, every one-byte insertion and deletion - and pairs of substitutions over
// structural bytes - of a corpus of valid tables of every layout, with the footer CRC
// repaired when the edit touches header or footer, and with edits applied inside the
// inflated payload of log blocks. Every mutant is driven through NewReader, full scans,
// seeks and RefsFor; each call must return (records or an error): no panic, no hang, no
// unbounded allocation.
package main

import (
	"bufio"
	"bytes"
	"compress/zlib"
	"encoding/binary"
	"encoding/json"
	"flag"
	"fmt"
	"hash/crc32"
	"io"
	"math"
	"os"
	"os/exec"
	"runtime"
	"runtime/metrics"
	"sort"
	"strings"
	"sync"
	"sync/atomic"
	"time"

	"github.com/google/reftable"

	"verif/internal/report"
	"verif/model/fmtspec"
	"verif/model/refdb"
	"verif/model/tablegen"
)

// ---------------------------------------------------------------- corpus

type corpusEntry struct {
	Name   string
	Data   []byte
	Shape  string
	Dec    *fmtspec.Table
	Names  []string // some ref names / log names to seek
	Oid    []byte
	LogEnd bool // last block is a log block (payload edits possible)
}

func toConfig(c tablegen.Cfg) reftable.Config {
	cfg := reftable.Config{Unaligned: c.Unaligned, BlockSize: c.BlockSize, SkipIndexObjects: c.SkipObj, RestartInterval: c.Restart, ExactLogMessage: c.ExactMsg}
	if c.SHA256 {
		cfg.HashID = reftable.SHA256ID
	}
	return cfg
}

func write(c *tablegen.Case) []byte {
	cfg := toConfig(c.Cfg)
	var buf bytes.Buffer
	w, err := reftable.NewWriter(&buf, &cfg)
	if err != nil {
		return nil
	}
	w.SetLimits(c.Min, c.Max)
	for _, r := range c.Refs {
		rec := reftable.RefRecord{RefName: r.Name, UpdateIndex: r.UpdateIndex, Value: r.Value, TargetValue: r.Peeled, Target: r.Symref}
		if w.AddRef(&rec) != nil {
			return nil
		}
	}
	for _, l := range c.Logs {
		rec := reftable.LogRecord{RefName: l.Name, UpdateIndex: l.UpdateIndex}
		if !l.Deletion {
			rec.Old, rec.New, rec.Name, rec.Email, rec.Time, rec.TZOffset, rec.Message = l.Old, l.New, l.Who, l.Email, l.Time, l.TZ, l.Message
		}
		if w.AddLog(&rec) != nil {
			return nil
		}
	}
	if w.Close() != nil {
		return nil
	}
	return buf.Bytes()
}

func shapeOf(t *fmtspec.Table) string {
	nb := map[byte]int{}
	for _, b := range t.Blocks {
		nb[b.Typ]++
	}
	cl := func(n int) string {
		if n > 3 {
			return "4+"
		}
		return fmt.Sprint(n)
	}
	return fmt.Sprintf("v%d r%s/L%d o%s/L%d g%s/L%d i%s unaligned=%v", t.Version, cl(nb['r']), t.IndexLevels['r'], cl(nb['o']), t.IndexLevels['o'], cl(nb['g']), t.IndexLevels['g'], cl(nb['i']), t.Unaligned)
}

func buildCorpus(maxSize int) []*corpusEntry {
	var out []*corpusEntry
	seen := map[string]bool{}
	cfgs := []tablegen.Cfg{
		{BlockSize: 64}, {BlockSize: 96}, {BlockSize: 128, Restart: 2}, {BlockSize: 64, Unaligned: true}, {BlockSize: 96, Unaligned: true, SkipObj: true},
		{SHA256: true, BlockSize: 128}, {SHA256: true, BlockSize: 128, Unaligned: true}, {}, {SHA256: true}, {BlockSize: 96, SkipObj: true}, {BlockSize: 256, ExactMsg: true},
	}
	add := func(c *tablegen.Case) {
		data := write(c)
		if data == nil || len(data) > maxSize {
			return
		}
		dec, err := fmtspec.Decode(data)
		if err != nil {
			return
		}
		sh := shapeOf(dec)
		if c.Family == "explicit-obj-count" {
			sh += " obj-record-with-count-varint"
		}
		if seen[sh] {
			return
		}
		seen[sh] = true
		e := &corpusEntry{Name: c.ID(), Data: data, Shape: sh, Dec: dec}
		for i, r := range c.Refs {
			if i == 0 || i == len(c.Refs)-1 || i == len(c.Refs)/2 {
				e.Names = append(e.Names, r.Name)
			}
			if e.Oid == nil && r.Value != nil {
				e.Oid = r.Value
			}
		}
		for i, l := range c.Logs {
			if i == 0 || i == len(c.Logs)-1 {
				e.Names = append(e.Names, l.Name)
			}
		}
		if len(dec.Blocks) > 0 && dec.Blocks[len(dec.Blocks)-1].Typ == 'g' {
			e.LogEnd = true
		}
		out = append(out, e)
	}
	for _, cfg := range cfgs {
		tablegen.F2(cfg, []int{1, 2, 3, 4, 5, 6, 8, 10, 12, 16}, add)
		tablegen.F4(cfg, add)
	}
	// an object referenced from >=8 ref blocks, so that its obj record carries an explicit count varint
	{
		cfg := tablegen.Cfg{BlockSize: 128, Unaligned: true}
		var refs []refdb.Ref
		shared := tablegen.Oid("many", 20)
		for i := 0; i < 10; i++ {
			refs = append(refs, refdb.Ref{Name: fmt.Sprintf("refs/heads/object-holder-%02d-%s", i, strings.Repeat("x", 32)), Kind: 1, UpdateIndex: 1, Value: shared})
		}
		save := maxSize
		maxSize = 3000
		add(&tablegen.Case{Family: "explicit-obj-count", Cfg: cfg, Min: 1, Max: 1, Refs: refs, Note: "one object in 10 ref blocks"})
		maxSize = save
	}
	sort.SliceStable(out, func(i, j int) bool { return len(out[i].Data) < len(out[j].Data) })
	return out
}

// ---------------------------------------------------------------- mutants

type mutant struct {
	Corpus int
	Kind   string // sub trunc ins del sub2 logsub ovw field cut pad
	Width  int    `json:",omitempty"` // field: big-endian field of this many bytes at Off set to Value
	Value  uint64 `json:",omitempty"`
	Bytes  []byte `json:",omitempty"` // ovw: bytes written over the file starting at Off
	Off    int
	Val    byte
	Off2   int
	Val2   byte
	Repair bool
}

func (m mutant) String() string {
	switch m.Kind {
	case "sub2":
		return fmt.Sprintf("corpus#%d sub2 @%d=%#02x @%d=%#02x repair=%v", m.Corpus, m.Off, m.Val, m.Off2, m.Val2, m.Repair)
	case "trunc":
		return fmt.Sprintf("corpus#%d truncate to %d", m.Corpus, m.Off)
	case "ovw":
		return fmt.Sprintf("corpus#%d overwrite @%d with % x repair=%v", m.Corpus, m.Off, m.Bytes, m.Repair)
	case "field":
		return fmt.Sprintf("corpus#%d %d-byte big-endian field @%d = %d, CRC repaired", m.Corpus, m.Width, m.Off, m.Value)
	case "cut":
		return fmt.Sprintf("corpus#%d bytes [%d, footer) removed, footer kept", m.Corpus, m.Off)
	case "pad":
		return fmt.Sprintf("corpus#%d %d zero bytes inserted before the footer", m.Corpus, m.Off)
	}
	return fmt.Sprintf("corpus#%d %s @%d=%#02x repair=%v", m.Corpus, m.Kind, m.Off, m.Val, m.Repair)
}

func sizes(version byte) (hs, fs int) {
	if version == 2 {
		return 28, 72
	}
	return 24, 68
}

// repair mirrors header edits into the footer copy and recomputes the CRC.
func repair(d []byte, orig []byte) {
	if len(d) < 24+68 || len(d) != len(orig) {
		return
	}
	hs, fs := sizes(orig[4])
	if len(d) < hs+fs {
		return
	}
	foot := d[len(d)-fs:]
	for i := 0; i < hs; i++ {
		if d[i] != orig[i] {
			foot[i] = d[i]
		}
	}
	binary.BigEndian.PutUint32(foot[fs-4:], crc32.ChecksumIEEE(foot[:fs-4]))
}

func apply(e *corpusEntry, m mutant) []byte {
	src := e.Data
	switch m.Kind {
	case "sub", "sub2":
		d := append([]byte{}, src...)
		d[m.Off] = m.Val
		if m.Kind == "sub2" {
			d[m.Off2] = m.Val2
		}
		if m.Repair {
			repair(d, src)
		}
		return d
	case "trunc":
		return append([]byte{}, src[:m.Off]...)
	case "ovw":
		d := append([]byte{}, src...)
		copy(d[m.Off:], m.Bytes)
		if m.Repair {
			repair(d, src)
		}
		return d
	case "field":
		d := append([]byte{}, src...)
		for i := 0; i < m.Width; i++ {
			d[m.Off+i] = byte(m.Value >> (8 * uint(m.Width-1-i)))
		}
		repair(d, src)
		return d
	case "cut":
		_, fs := sizes(src[4])
		d := append([]byte{}, src[:m.Off]...)
		return append(d, src[len(src)-fs:]...)
	case "pad":
		_, fs := sizes(src[4])
		d := append([]byte{}, src[:len(src)-fs]...)
		d = append(d, make([]byte, m.Off)...)
		return append(d, src[len(src)-fs:]...)
	case "ins":
		d := append([]byte{}, src[:m.Off]...)
		d = append(d, m.Val)
		return append(d, src[m.Off:]...)
	case "del":
		d := append([]byte{}, src[:m.Off]...)
		return append(d, src[m.Off+1:]...)
	case "logsub":
		// edit inside the inflated payload of the final log block, then re-deflate
		b := e.Dec.Blocks[len(e.Dec.Blocks)-1]
		_, fs := sizes(src[4])
		h := 0
		if b.Off == 0 {
			h, _ = sizes(src[4])
		}
		start := int(b.Off) + h + 4
		zr, err := zlib.NewReader(bytes.NewReader(src[start : len(src)-fs]))
		if err != nil {
			return nil
		}
		payload, err := io.ReadAll(zr)
		if err != nil || m.Off >= len(payload) {
			return nil
		}
		payload[m.Off] = m.Val
		var z bytes.Buffer
		zw, _ := zlib.NewWriterLevel(&z, 9)
		zw.Write(payload)
		zw.Close()
		d := append([]byte{}, src[:start]...)
		d = append(d, z.Bytes()...)
		return append(d, src[len(src)-fs:]...)
	}
	return nil
}

// putVarint is the format's varint encoding (written here independently of the code under test).
func putVarint(v uint64) []byte {
	out := []byte{byte(v & 0x7f)}
	for {
		v >>= 7
		if v == 0 {
			break
		}
		v--
		out = append([]byte{0x80 | byte(v&0x7f)}, out...)
	}
	return out
}

func values(b byte, all bool) []byte {
	if all {
		out := make([]byte, 0, 255)
		for v := 0; v < 256; v++ {
			if byte(v) != b {
				out = append(out, byte(v))
			}
		}
		return out
	}
	cand := []byte{0x00, 0x01, 0x7f, 0x80, 0xff, b ^ 0x01, b ^ 0x80, b + 1, b - 1, b ^ 0xff, 'r', 'i', b << 1, b | 0x07}
	seen := map[byte]bool{b: true}
	var out []byte
	for _, v := range cand {
		if !seen[v] {
			seen[v] = true
			out = append(out, v)
		}
	}
	return out
}

// structural returns the offsets of structural bytes of a table (block headers, restart tables,
// the first record's varints, footer positions).
func structural(e *corpusEntry) []int {
	set := map[int]bool{}
	hs, fs := sizes(e.Data[4])
	for i := 4; i < 8; i++ {
		set[i] = true // version + block size
	}
	for _, b := range e.Dec.Blocks {
		h := 0
		if b.Off == 0 {
			h = hs
		}
		for i := 0; i < 7; i++ { // type, length, first record's prefix/suffix varints and first key byte
			set[int(b.Off)+h+i] = true
		}
		if b.Typ != 'g' {
			end := int(b.Off) + int(b.Len)
			for i := 1; i <= 2+3*2 && end-i > int(b.Off); i++ { // restart count and last two restart offsets
				set[end-i] = true
			}
		}
	}
	for i := len(e.Data) - fs + hs; i < len(e.Data)-4; i++ {
		set[i] = true
	}
	var out []int
	for o := range set {
		if o >= 0 && o < len(e.Data) {
			out = append(out, o)
		}
	}
	sort.Ints(out)
	return out
}

// enumerate calls yield for every mutant of the tier, in a fixed order.
func enumerate(corpus []*corpusEntry, thorough bool, yield func(m mutant)) {
	for ci, e := range corpus {
		hs, fs := sizes(e.Data[4])
		n := len(e.Data)
		yield(mutant{Corpus: ci, Kind: "trunc", Off: n}) // 0 deviations: the valid table
		for o := 0; o < n; o++ {
			inHdrFtr := o < hs || o >= n-fs
			for _, v := range values(e.Data[o], thorough) {
				yield(mutant{Corpus: ci, Kind: "sub", Off: o, Val: v, Repair: inHdrFtr})
				if inHdrFtr && !thorough || inHdrFtr && v%16 == 0 {
					yield(mutant{Corpus: ci, Kind: "sub", Off: o, Val: v, Repair: false})
				}
			}
			yield(mutant{Corpus: ci, Kind: "del", Off: o})
			for _, v := range []byte{0x00, 0x80, 0xff} {
				yield(mutant{Corpus: ci, Kind: "ins", Off: o, Val: v})
			}
		}
		for l := 0; l < n; l++ {
			yield(mutant{Corpus: ci, Kind: "trunc", Off: l})
		}
		// length-field edits: at EVERY offset, overwrite with (a) hostile varints of several widths and
		// (b) the varint of every block position of this table, of 0 and of the file size - so every
		// position field gets pointed at every block, including the one it lives in
		var pats [][]byte
		for _, hv := range []uint64{^uint64(0), 1 << 63, 1<<63 - 1, 1 << 62, 1 << 32, 1<<31 - 1, 1 << 24, 1 << 16, 300} {
			pats = append(pats, putVarint(hv))
		}
		pats = append(pats, []byte{0xff, 0xff, 0xff, 0xff, 0xff, 0xff, 0xff, 0xff, 0xff, 0xff, 0x7f}) // 11 bytes: overflows 64 bits
		seenV := map[uint64]bool{}
		posVals := []uint64{0, uint64(n), uint64(n - fs)}
		for _, b := range e.Dec.Blocks {
			posVals = append(posVals, b.Off, b.Off+uint64(b.Len))
		}
		for _, v := range posVals {
			if !seenV[v] {
				seenV[v] = true
				pats = append(pats, putVarint(v))
			}
		}
		for o := hs; o < n-4; o++ {
			for _, pb := range pats {
				if o+len(pb) > n-4 {
					continue
				}
				if bytes.Equal(e.Data[o:o+len(pb)], pb) {
					continue
				}
				yield(mutant{Corpus: ci, Kind: "ovw", Off: o, Bytes: pb, Repair: o+len(pb) > n-fs})
			}
		}
		// fixed-width fields set to every interesting position (CRC repaired, header mirrored): the block
		// size in the header, and the five 8-byte section positions of the footer
		{
			fvals := map[uint64]bool{0: true, 1: true, 2: true, 3: true, 4: true, uint64(n): true, uint64(n - fs): true, uint64(n + 1): true, 1<<24 - 1: true, 1 << 16: true}
			for d := -1; d <= 8; d++ {
				fvals[uint64(hs+d)] = true
				fvals[uint64(hs+fs+d)] = true
			}
			for _, b := range e.Dec.Blocks {
				for d := -1; d <= 1; d++ {
					fvals[uint64(int(b.Off)+d)] = true
					fvals[uint64(int(b.Off)+int(b.Len)+d)] = true
				}
				fvals[uint64(b.Len)] = true
			}
			var fl []uint64
			for v := range fvals {
				fl = append(fl, v)
			}
			sort.Slice(fl, func(i, j int) bool { return fl[i] < fl[j] })
			for _, v := range fl {
				if v < 1<<24 {
					yield(mutant{Corpus: ci, Kind: "field", Off: 5, Width: 3, Value: v, Repair: true})
				}
				for k := 0; k < 5; k++ {
					o := n - fs + hs + 8*k
					yield(mutant{Corpus: ci, Kind: "field", Off: o, Width: 8, Value: v, Repair: true})
					if k == 1 { // object section: position << 5 | id length
						yield(mutant{Corpus: ci, Kind: "field", Off: o, Width: 8, Value: v<<5 | uint64(e.Data[o+7]&31), Repair: true})
					}
				}
			}
			for _, v := range []uint64{1 << 63, ^uint64(0), 1 << 32, 1<<59 | 5} {
				for k := 0; k < 5; k++ {
					yield(mutant{Corpus: ci, Kind: "field", Off: n - fs + hs + 8*k, Width: 8, Value: v, Repair: true})
				}
			}
		}
		// the table ends early or late but keeps its (valid) footer
		for k := hs; k < n-fs; k++ {
			yield(mutant{Corpus: ci, Kind: "cut", Off: k})
		}
		for _, k := range []int{1, 2, 3, 4, 24, 64, 68} {
			yield(mutant{Corpus: ci, Kind: "pad", Off: k})
		}
		if e.LogEnd {
			b := e.Dec.Blocks[len(e.Dec.Blocks)-1]
			plen := int(b.Len) - 4
			if b.Off == 0 {
				plen -= hs
			}
			for o := 0; o < plen; o++ {
				for _, v := range values(0x55, thorough) {
					yield(mutant{Corpus: ci, Kind: "logsub", Off: o, Val: v})
				}
			}
		}
		// two deviations over structural bytes
		st := structural(e)
		vals := []byte{0x00, 0xff, 0x80, 0x01}
		if thorough {
			vals = []byte{0x00, 0xff, 0x80, 0x01, 0x7f, 0x10, 'r', 'g'}
		}
		if !thorough && n > 400 {
			continue // quick tier: pairs on the small tables only
		}
		for i, o1 := range st {
			for _, o2 := range st[i+1:] {
				for _, v1 := range vals {
					for _, v2 := range vals {
						if e.Data[o1] == v1 || e.Data[o2] == v2 {
							continue
						}
						yield(mutant{Corpus: ci, Kind: "sub2", Off: o1, Val: v1, Off2: o2, Val2: v2, Repair: true})
					}
				}
			}
		}
	}
}

// ---------------------------------------------------------------- driver

// budgetSource wraps the library's own ByteBlockSource with a deterministic read budget.
type budgetSource struct {
	inner     *reftable.ByteBlockSource
	calls     int
	bytes     int
	limit     int // ReadBlock calls allowed per API call
	exhausted bool
}

var errBudget = fmt.Errorf("verif: read budget exhausted")

func (s *budgetSource) Size() uint64 { return s.inner.Size() }
func (s *budgetSource) Close() error { return nil }
func (s *budgetSource) ReadBlock(off uint64, sz int) ([]byte, error) {
	s.calls++
	if s.calls > s.limit {
		// a single API call cannot legitimately need this many block reads: the code is looping
		s.exhausted = true
		return nil, errBudget
	}
	b, err := s.inner.ReadBlock(off, sz)
	s.bytes += len(b)
	return b, err
}

// next starts the budget of the next API call; it reports whether the previous one ran out.
func (s *budgetSource) next() bool {
	ex := s.exhausted
	s.calls, s.exhausted = 0, false
	return ex
}

type outcome struct {
	Sig string
	Msg string
}

func panicSite() string {
	pcs := make([]uintptr, 64)
	n := runtime.Callers(3, pcs)
	fr := runtime.CallersFrames(pcs[:n])
	for {
		f, more := fr.Next()
		if strings.Contains(f.Function, "github.com/google/reftable.") && !strings.Contains(f.Function, "zz_verif") {
			return f.Function[strings.LastIndex(f.Function, "/")+1+len("reftable."):]
		}
		if !more {
			break
		}
	}
	return "?"
}

var allocSample = []metrics.Sample{{Name: "/gc/heap/allocs:bytes"}}

func allocated() uint64 {
	metrics.Read(allocSample)
	return allocSample[0].Value.Uint64()
}

// drive runs every read path over one byte string.
func drive(data []byte, e *corpusEntry) (out *outcome) {
	src := &budgetSource{inner: &reftable.ByteBlockSource{Source: data}, limit: 2*len(data) + 64}
	maxSteps := 16*len(data) + 256
	a0 := allocated()
	call := "NewReader"
	defer func() {
		if r := recover(); r != nil {
			out = &outcome{Sig: "panic@" + panicSite(), Msg: fmt.Sprintf("%s panicked: %v", call, r)}
		}
		if out == nil {
			if d := allocated() - a0; d > uint64(256*len(data)+(8<<20)) {
				out = &outcome{Sig: "alloc:unbounded@" + call, Msg: fmt.Sprintf("reading a %d-byte input allocated %d bytes (last call %s)", len(data), d, call)}
			}
		}
	}()
	rd, err := reftable.NewReader(src, "m")
	if err != nil {
		return nil
	}
	iterRefs := func(it *reftable.Iterator, limit int) *outcome {
		for i := 0; ; i++ {
			var r reftable.RefRecord
			ok, err := it.NextRef(&r)
			if err != nil || !ok {
				return nil
			}
			if i > maxSteps {
				return &outcome{Sig: "hang:ref-iteration-does-not-end@" + call, Msg: fmt.Sprintf("%s: more than %d records from a %d-byte input", call, maxSteps, len(data))}
			}
			if limit > 0 && i >= limit {
				return nil
			}
		}
	}
	iterLogs := func(it *reftable.Iterator, limit int) *outcome {
		for i := 0; ; i++ {
			var l reftable.LogRecord
			ok, err := it.NextLog(&l)
			if err != nil || !ok {
				return nil
			}
			if i > maxSteps {
				return &outcome{Sig: "hang:log-iteration-does-not-end@" + call, Msg: fmt.Sprintf("%s: more than %d records from a %d-byte input", call, maxSteps, len(data))}
			}
			if limit > 0 && i >= limit {
				return nil
			}
		}
	}
	hung := func() *outcome {
		if src.next() {
			return &outcome{Sig: "hang:read-budget-exceeded@" + strings.SplitN(call, "(", 2)[0], Msg: fmt.Sprintf("%s needed more than %d block reads on a %d-byte input: the reader is looping", call, src.limit, len(data))}
		}
		return nil
	}
	src.next()
	call = "SeekRef(\"\")+scan"
	if it, err := rd.SeekRef(""); err == nil {
		if o := iterRefs(it, 0); o != nil {
			return o
		}
	}
	if o := hung(); o != nil {
		return o
	}
	call = "SeekLog(\"\",max)+scan"
	if it, err := rd.SeekLog("", math.MaxUint64); err == nil {
		if o := iterLogs(it, 0); o != nil {
			return o
		}
	}
	if o := hung(); o != nil {
		return o
	}
	keys := append([]string{"\xff\xff", "a"}, e.Names...)
	for _, k := range keys {
		call = "SeekRef(key)"
		if it, err := rd.SeekRef(k); err == nil {
			if o := iterRefs(it, 3); o != nil {
				return o
			}
		}
		if o := hung(); o != nil {
			return o
		}
		call = "SeekLog(key)"
		if it, err := rd.SeekLog(k, 5); err == nil {
			if o := iterLogs(it, 3); o != nil {
				return o
			}
		}
		if o := hung(); o != nil {
			return o
		}
	}
	oids := [][]byte{e.Oid, bytes.Repeat([]byte{0xff}, 32), make([]byte, 32)}
	for _, oid := range oids {
		if oid == nil {
			continue
		}
		call = "RefsFor"
		if it, err := rd.RefsFor(oid); err == nil {
			if o := iterRefs(it, 0); o != nil {
				return o
			}
		}
		if o := hung(); o != nil {
			return o
		}
	}
	return nil
}

// ---------------------------------------------------------------- worker / parent

type wres struct {
	Mutants  int                 `json:"mutants"`
	Rejected int                 `json:"rejected_at_open"`
	Viol     map[string]*violRec `json:"viol"`
	ByKind   map[string]int      `json:"by_kind"`
}

type violRec struct {
	Sig    string `json:"sig"`
	Msg    string `json:"msg"`
	Mutant mutant `json:"mutant"`
	Corpus string `json:"corpus"`
	N      int    `json:"n"`
}

func main() {
	prop := flag.String("property", "C18", "")
	tier := flag.String("tier", "quick", "")
	worker := flag.String("worker", "", "i/n")
	from := flag.Int("from", 0, "resume after a worker death: skip this many of the worker's mutants")
	replay := flag.String("replay", "", "")
	bindRep := flag.String("bindreport", "", "")
	flag.Parse()
	thorough := *tier == "thorough"
	maxSize := 700
	if thorough {
		maxSize = 1200
	}
	corpus := buildCorpus(maxSize)
	if len(corpus) > 48 {
		corpus = corpus[:48]
	}

	if *replay != "" {
		b, err := os.ReadFile(*replay)
		if err != nil {
			fmt.Println("HARNESS-ERROR", err)
			os.Exit(2)
		}
		var v struct {
			Signature string `json:"signature"`
			Replay    struct {
				Mutant mutant `json:"mutant"`
				Corpus string `json:"corpus"`
			} `json:"replay"`
		}
		json.Unmarshal(b, &v)
		for ci, e := range corpus {
			if e.Name == v.Replay.Corpus {
				m := v.Replay.Mutant
				m.Corpus = ci
				d := apply(e, m)
				o := drive(d, e)
				if o != nil {
					fmt.Printf("violation %s\n%s\n", o.Sig, o.Msg)
					fmt.Printf("VIOLATION property=%s replay=%s\n", *prop, *replay)
					os.Exit(1)
				}
				fmt.Println("the recorded violation did not recur")
				os.Exit(0)
			}
		}
		fmt.Println("HARNESS-ERROR corpus entry not found:", v.Replay.Corpus)
		os.Exit(2)
	}

	if *worker != "" {
		var wi, wn int
		fmt.Sscanf(*worker, "%d/%d", &wi, &wn)
		res := &wres{Viol: map[string]*violRec{}, ByKind: map[string]int{}}
		var progress int64
		var current atomic.Value
		current.Store("")
		go func() { // watchdog: a single mutant normally takes microseconds
			last, lastT := int64(-1), time.Now()
			for {
				time.Sleep(2 * time.Second)
				p := atomic.LoadInt64(&progress)
				if p != last {
					last, lastT = p, time.Now()
				} else if time.Since(lastT) > 90*time.Second {
					fmt.Fprintf(os.Stderr, "HANG %d %s\n", p, current.Load())
					os.Exit(3)
				}
			}
		}()
		errw := bufio.NewWriterSize(os.Stderr, 64)
		idx, mine := 0, 0
		enumerate(corpus, thorough, func(m mutant) {
			idx++
			if (idx-1)%wn != wi {
				return
			}
			mine++
			if mine <= *from {
				return
			}
			e := corpus[m.Corpus]
			d := apply(e, m)
			if d == nil {
				return
			}
			// the marker survives a fatal runtime error (out of memory is not recoverable)
			fmt.Fprintf(errw, "M %d\n", mine)
			errw.Flush()
			current.Store(m.String())
			o := drive(d, e)
			atomic.AddInt64(&progress, 1)
			res.Mutants++
			res.ByKind[m.Kind]++
			if o != nil {
				if v, ok := res.Viol[o.Sig]; ok {
					v.N++
				} else {
					res.Viol[o.Sig] = &violRec{Sig: o.Sig, Msg: fmt.Sprintf("%s (table %s, layout %s): %s", m, e.Name, e.Shape, o.Msg), Mutant: m, Corpus: e.Name, N: 1}
				}
			}
		})
		js, _ := json.Marshal(res)
		fmt.Println("WORKERRESULT " + string(js))
		return
	}

	run := report.NewRun(*prop, *tier, "fault_enumeration")
	self, _ := os.Executable()
	const W = 16
	type wout struct {
		res    []*wres
		deaths []string
	}
	outs := make([]*wout, W)
	var wg sync.WaitGroup
	for i := 0; i < W; i++ {
		wg.Add(1)
		go func(i int) {
			defer wg.Done()
			o := &wout{}
			outs[i] = o
			from := 0
			for attempt := 0; attempt < 50; attempt++ {
				// address-space limit: an unbounded allocation kills the worker instead of the machine
				cmd := exec.Command("sh", "-c", fmt.Sprintf("ulimit -v 3145728; exec %s --property %s --tier %s --worker %d/%d --from %d", self, *prop, *tier, i, W, from))
				cmd.Env = append(os.Environ(), "GOMAXPROCS=1")
				var stdout bytes.Buffer
				cmd.Stdout = &stdout
				stderr, _ := cmd.StderrPipe()
				cmd.Start()
				lastMarker := 0
				tail := ""
				sc := bufio.NewScanner(stderr)
				sc.Buffer(make([]byte, 1<<20), 1<<20)
				for sc.Scan() {
					l := sc.Text()
					if strings.HasPrefix(l, "M ") {
						fmt.Sscanf(l, "M %d", &lastMarker)
					} else {
						if len(tail) < 4000 {
							tail += l + "\n"
						}
					}
				}
				err := cmd.Wait()
				r := &wres{}
				ok := false
				for _, l := range strings.Split(stdout.String(), "\n") {
					if strings.HasPrefix(l, "WORKERRESULT ") {
						ok = json.Unmarshal([]byte(l[len("WORKERRESULT "):]), r) == nil
					}
				}
				if ok {
					o.res = append(o.res, r)
					return
				}
				// the worker died on mutant number lastMarker: record it and resume after it
				first := tail
				if j := strings.Index(first, "\n"); j >= 0 {
					first = first[:j]
				}
				o.deaths = append(o.deaths, fmt.Sprintf("worker %d died (%v) on its mutant #%d: %s", i, err, lastMarker, first))
				from = lastMarker
			}
		}(i)
	}
	wg.Wait()
	tot := &wres{Viol: map[string]*violRec{}, ByKind: map[string]int{}}
	var deaths []string
	for _, o := range outs {
		deaths = append(deaths, o.deaths...)
		for _, r := range o.res {
			tot.Mutants += r.Mutants
			for k, v := range r.ByKind {
				tot.ByKind[k] += v
			}
			for k, v := range r.Viol {
				if x, ok := tot.Viol[k]; ok {
					x.N += v.N
				} else {
					tot.Viol[k] = v
				}
			}
		}
	}
	var sigs []string
	for k := range tot.Viol {
		sigs = append(sigs, k)
	}
	sort.Strings(sigs)
	for _, k := range sigs {
		v := tot.Viol[k]
		run.Violations = append(run.Violations, report.V{Property: *prop, Signature: v.Sig, Msg: v.Msg, Count: v.N, Replay: map[string]interface{}{"harness": "corrupt", "mutant": v.Mutant, "corpus": v.Corpus, "message": v.Msg}})
	}
	for _, d := range deaths {
		sig := "fatal:worker-died"
		if strings.Contains(d, "out of memory") || strings.Contains(d, "cannot allocate") {
			sig = "alloc:fatal-out-of-memory"
		} else if strings.Contains(d, "HANG") {
			sig = "hang:no-progress-for-90s"
		}
		run.Violations = append(run.Violations, report.V{Property: *prop, Signature: sig, Msg: d, Count: 1, Replay: map[string]interface{}{"harness": "corrupt", "message": d}})
	}
	cov := run.Coverage
	cov["evaluations"] = tot.Mutants
	cov["distinct_nontrivial"] = tot.Mutants - len(corpus)
	cov["mutants_by_kind"] = tot.ByKind
	cov["corpus_tables"] = len(corpus)
	var layouts []string
	var samples []interface{}
	for i, e := range corpus {
		layouts = append(layouts, fmt.Sprintf("%d bytes: %s", len(e.Data), e.Shape))
		if i < 3 {
			samples = append(samples, fmt.Sprintf("corpus#%d %s (%d bytes, %s); e.g. mutant: substitute byte %d by 0x80", i, e.Name, len(e.Data), e.Shape, len(e.Data)/2))
		}
	}
	cov["corpus_layouts"] = layouts
	cov["samples"] = samples
	cov["exhaustive"] = true
	cov["rule"] = "corpus = one valid table per distinct layout (versions, padded/unaligned, refs/logs/both, index depths, object index) produced by the real writer; mutants = every offset x value alphabet (all 256 values in the thorough tier) substitution, every truncation, every one-byte insertion/deletion, substitutions inside the inflated payload of a final log block (re-deflated), length-field edits (at every offset: hostile varints of 2-10 bytes and the varint of every block position, of 0 and of the file size), fixed-width fields (the header's block size, the footer's five section positions) set to every block boundary +-1, header/footer sizes -1..+8, 0..4, the file size and huge values with the CRC repaired, the table cut short at every offset or padded with its footer kept, and all pairs of substitutions over structural bytes; CRC repaired and header mirrored when the edit touches header/footer (both variants). Every mutant distinct by construction; non-trivial = all but the unmodified tables"
	if *bindRep != "" {
		if b, err := os.ReadFile(*bindRep); err == nil {
			var br interface{}
			json.Unmarshal(b, &br)
			cov["binding"] = br
		}
	}
	run.Assumptions = []string{
		"'for all byte strings' is decided for all strings within one edit (two structural edits) of the corpus; coverage-guided fuzzing (sampling) is not used",
		"hang = a deterministic budget exceeded (more than 2x file size + 64 block reads in ONE API call, or more than 16x file size records from one iteration), or no progress of the worker for 90 s; unbounded allocation = more than 256x input size + 8 MiB allocated for one input, or a fatal out-of-memory under a 3 GiB address-space limit",
		"inputs are read through the library's own ByteBlockSource under a read budget",
	}
	_ = refdb.New
	os.Exit(run.Finish())
}
