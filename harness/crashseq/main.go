// Command crashseq decides C06: for every victim call kind, initial stack and
// hash type it enumerates EVERY filesystem-operation boundary of the call as a
// crash point, kills the victim there, and lets a survivor process run a fixed
// program on the real code; every read must show exactly the state before or
// after the victim's operation. The list-integrity invariant of C05 is
// evaluated after every filesystem mutation of victim and survivor.
package main

import (
	"encoding/json"
	"flag"
	"fmt"
	"os"
	"strings"

	"github.com/google/reftable"
	"github.com/google/reftable/zz_verif/rt"

	"verif/engine/mc"
	"verif/engine/monitor"
	"verif/internal/hx"
	"verif/internal/report"
	"verif/internal/stk"
	"verif/model/refdb"
)

type victim struct {
	Kind   string // add addauto addition2 compactall expiry range clean close
	Inits  []string
	NoAuto bool
}

var victims = []victim{
	{Kind: "add", Inits: []string{"empty", "one", "three", "orphan-empty"}, NoAuto: true},
	{Kind: "addauto", Inits: []string{"one", "two", "four", "cancel", "high2"}},
	{Kind: "addition2", Inits: []string{"empty", "two"}, NoAuto: true},
	{Kind: "addition3", Inits: []string{"one", "cancel"}, NoAuto: true},
	{Kind: "addempty", Inits: []string{"one"}, NoAuto: true},
	{Kind: "compactall", Inits: []string{"two", "three", "four", "cancel", "cancel2", "high2"}, NoAuto: true},
	{Kind: "expiry", Inits: []string{"two", "four"}, NoAuto: true},
	{Kind: "range", Inits: []string{"three", "four"}, NoAuto: true},
	{Kind: "range01", Inits: []string{"cancel"}, NoAuto: true},
	{Kind: "clean", Inits: []string{"empty", "two", "orphans", "orphan-empty"}, NoAuto: true},
	{Kind: "close", Inits: []string{"two", "orphans", "orphan-empty"}, NoAuto: true},
}

type caseResult struct {
	violations []report.V
	n          int // vfs calls of the complete victim call
	cases      int
	nontrivial int
	sample     string
	leftLock   int
	faultCases int
}

func hsOf(cfg reftable.Config) int { return stk.HashSize(cfg) }

// runVictim performs the victim call; returns result string and the expected "after" model.
func runVictim(w *mc.World, p *mc.Proc, st *reftable.Stack, kind string, cfg reftable.Config, before *refdb.DB) (res string, after *refdb.DB, expectTxn bool) {
	hs := hsOf(cfg)
	applyTxn := func(db *refdb.DB, t hx.Txn, ui uint64) *refdb.DB {
		n := db.Clone()
		refs, logs := t.Records(ui, hs, cfg.ExactLogMessage)
		for _, r := range refs {
			if r.Kind == 0 {
				delete(n.Refs, r.Name)
			} else {
				n.PutRef(r)
			}
		}
		for _, l := range logs {
			if l.Deletion {
				delete(n.Logs, refdb.LogKey{Name: l.Name, UI: l.UpdateIndex})
			} else {
				n.PutLog(l)
			}
		}
		return n
	}
	after = before
	switch kind {
	case "add", "addauto":
		t := stk.Txn("v")
		ui := st.NextUpdateIndex()
		after = applyTxn(before, t, ui)
		err := st.Add(func(wr *reftable.Writer) error { return t.Write(wr, st.NextUpdateIndex(), hs) })
		return hx.ErrString(err), after, true
	case "addition2":
		ui := st.NextUpdateIndex()
		after = applyTxn(applyTxn(before, stk.Txn("v1"), ui), stk.Txn("v2"), ui+1)
		tr, err := st.NewAddition()
		if err != nil {
			return hx.ErrString(err), after, true
		}
		defer tr.Close()
		for i, id := range []string{"v1", "v2"} {
			t := stk.Txn(id)
			u := ui + uint64(i)
			if err := tr.Add(func(wr *reftable.Writer) error { return t.Write(wr, u, hs) }); err != nil {
				return hx.ErrString(err), after, true
			}
		}
		return hx.ErrString(tr.Commit()), after, true
	case "addition3":
		ui := st.NextUpdateIndex()
		tr, err := st.NewAddition()
		if err != nil {
			return hx.ErrString(err), after, true
		}
		defer tr.Close()
		for i, id := range []string{"v1", "v2", "v3"} {
			t := stk.Txn(id)
			u := ui + uint64(i)
			if err := tr.Add(func(wr *reftable.Writer) error { return t.Write(wr, u, hs) }); err != nil {
				return hx.ErrString(err), after, true
			}
		}
		return hx.ErrString(tr.Commit()), after, true
	case "addempty":
		t := stk.Txn("empty")
		err := st.Add(func(wr *reftable.Writer) error { return t.Write(wr, st.NextUpdateIndex(), hs) })
		return hx.ErrString(err), before, false
	case "range01":
		_, err := st.VerifCompactRange(0, 1, nil)
		return hx.ErrString(err), before, false
	case "compactall":
		return hx.ErrString(st.CompactAll(nil)), before, false
	case "expiry":
		after = before.Expire(900, 0, 0)
		return hx.ErrString(st.CompactAll(&reftable.LogExpirationConfig{Time: 900})), after, false
	case "range":
		_, err := st.VerifCompactRange(1, 2, nil)
		return hx.ErrString(err), before, false
	case "clean":
		return hx.ErrString(st.Clean()), before, false
	case "close":
		st.Close()
		return "ok", before, false
	}
	return "?", before, false
}

func initial(kind string, cfg reftable.Config) (map[string][]byte, error) {
	if kind != "orphans" {
		return stk.InitialDir(kind, cfg)
	}
	// two tables plus leftovers of crashed processes: an unlisted older table, a stale temp file
	base, err := stk.InitialDir("three", cfg)
	if err != nil {
		return nil, err
	}
	// compact on a copy so that the originals become unlisted orphans
	w := mc.NewWorld(stk.Dir)
	w.Restore(base)
	rt.E = w
	defer func() { rt.E = nil }()
	err = w.RunAtomic(func() error {
		st, err := reftable.NewStack(stk.Dir, cfg)
		if err != nil {
			return err
		}
		st.VerifSetAutoCompact(false)
		if _, err := st.VerifCompactRange(0, 1, nil); err != nil {
			return err
		}
		st.Close()
		return nil
	})
	if err != nil {
		return nil, err
	}
	m := w.Snapshot()
	// put the compacted-away inputs back, as if the compacting process had crashed before deleting them
	for n, b := range base {
		if _, ok := m[n]; !ok && strings.HasSuffix(n, ".ref") {
			m[n] = b
		}
	}
	m["0x000000000009-0x000000000009-deadbeef_x.reftmp"] = []byte("partial")
	return m, nil
}

func runKind(v victim, init string, cfg reftable.Config, quick bool) (*caseResult, error) {
	cr := &caseResult{}
	snap, err := initial(init, cfg)
	if err != nil {
		return nil, fmt.Errorf("initial %s: %v", init, err)
	}
	before, err := stk.ModelOf(snap)
	if err != nil {
		return nil, err
	}
	hs := hsOf(cfg)
	beforeC := before.CanonString(hs)
	label := fmt.Sprintf("%s/%s/%s", v.Kind, init, stk.HashName(cfg))

	// oneCase: the victim's j-th filesystem call fails with EIO (j=0: none) and the victim is killed
	// immediately before its k-th call (k=0: never).
	oneCase := func(k int, operator bool, j int) (n int, err error) {
		w := mc.NewWorld(stk.Dir)
		w.Restore(snap)
		rt.E = w
		defer func() { rt.E = nil }()
		w.KeepTrace = true
		li := &monitor.ListIntegrity{Prop: "C06", HashID: stk.HashName(cfg), Cfg: cfg, CheckOpen: true}
		if init == "empty" || init == "orphan-empty" {
			li.HashID = ""
		}
		w.Monitors = append(w.Monitors, li)
		vp := w.Proc(0)
		var st *reftable.Stack
		if err := w.As(0, func() error {
			var e error
			st, e = reftable.NewStack(stk.Dir, cfg)
			if e == nil {
				st.VerifSetAutoCompact(!v.NoAuto)
			}
			return e
		}); err != nil {
			return 0, fmt.Errorf("victim open: %v", err)
		}
		vp.OpCount = 0
		vp.CrashAt = k
		vp.FaultAt = j
		vp.Faults = 0
		var res string
		// the expected state after the operation comes from the model alone, before the call runs
		afterDB := planAfter(st, v.Kind, cfg, before)
		verr := w.As(0, func() (err error) {
			defer func() {
				if r := recover(); r != nil {
					if fmt.Sprintf("%T", r) == "mc.killSentinel" {
						panic(r)
					}
					res = fmt.Sprintf("PANIC: %v", r)
				}
			}()
			res, _, _ = runVictim(w, vp, st, v.Kind, cfg, before)
			return nil
		})
		n = vp.OpCount
		crashed := verr == mc.ErrCrashed
		if crashed {
			res = "crashed"
			vp.DropFDs()
		}
		afterC := afterDB.CanonString(hs)
		vio := func(sig, msg string) {
			tr := make([]string, len(w.Trace))
			for i, e := range w.Trace {
				tr[i] = e.String()
			}
			cr.violations = append(cr.violations, report.V{Property: "C06", Signature: sig, Msg: msg, Count: 1,
				Replay: map[string]interface{}{"harness": "crashseq", "victim": v.Kind, "initial": init, "hash": stk.HashName(cfg), "crash_before_vfs_call": k, "failing_vfs_call": j, "victim_calls_total": n, "trace": tr, "message": msg}})
		}
		faulted := vp.Faults > 0
		if j > 0 && !faulted {
			return n, nil // the j-th call cannot fail (removal, close of a read-only descriptor) or was never reached
		}
		vp.FaultAt = 0
		if strings.HasPrefix(res, "PANIC") {
			vio("crash:victim-panics@"+v.Kind, fmt.Sprintf("%s: victim call panicked (failing call %d): %s", label, j, res))
		}
		if !crashed && res != "ok" && !faulted {
			vio("crash:victim-fails-alone@"+v.Kind, fmt.Sprintf("%s: victim call failed without any crash: %s", label, res))
		}
		// survivor program
		leftLock := w.Lookup("tables.list.lock") != nil
		if leftLock && !operator {
			cr.leftLock++
		}
		sp := w.Proc(1)
		_ = sp
		cur := "" // current expected view once pinned
		step := func(name string, fn func() (string, error)) bool {
			var out string
			var e error
			perr := w.As(1, func() (err error) {
				defer func() {
					if r := recover(); r != nil {
						if fmt.Sprintf("%T", r) == "mc.killSentinel" {
							panic(r)
						}
						err = fmt.Errorf("PANIC: %v", r)
					}
				}()
				out, e = fn()
				return nil
			})
			if perr != nil {
				vio("crash:survivor-panics@"+name, fmt.Sprintf("%s crash before call %d/%d: survivor %s: %v", label, k, n, name, perr))
				return false
			}
			if e != nil {
				vio("crash:survivor-"+name+"-fails:"+short(e.Error()), fmt.Sprintf("%s crash before call %d/%d (victim: %s): survivor %s failed: %v; dir=%v list=%v", label, k, n, res, name, e, w.Names(), monitor.ListNames(w)))
				return false
			}
			_ = out
			return true
		}
		var s2 *reftable.Stack
		readCheck := func(name string, allowed ...string) func() (string, error) {
			return func() (string, error) {
				refs, logs, err := hx.ReadAll(s2.Merged(), hs)
				if err != nil {
					return "", err
				}
				got := hx.Joined(refs, logs)
				for _, a := range allowed {
					if got == a {
						cur = got
						return got, nil
					}
				}
				which := "the state before nor the state after the operation"
				return "", fmt.Errorf("view is neither %s:\n%s", which, got)
			}
		}
		open := func() (string, error) {
			var e error
			s2, e = reftable.NewStack(stk.Dir, cfg)
			if e != nil {
				return "", e
			}
			s2.VerifSetAutoCompact(false)
			return "ok", nil
		}
		if !step("open", open) {
			return n, nil
		}
		allowed := []string{beforeC, afterC}
		if !crashed && res == "ok" {
			allowed = []string{afterC}
		}
		if !step("read", readCheck("read", allowed...)) {
			return n, nil
		}
		pinned := cur
		if operator {
			// an operator removes the stale lock files a crashed process left behind
			for _, nm := range w.Names() {
				if strings.HasSuffix(nm, ".lock") {
					w.Unlink(nm)
				}
			}
			leftLock = false
		}
		// survivor Add: ok, or lockfail only while the leftover list lock exists
		sT := stk.Txn("s")
		var sRes string
		var sUI uint64
		okAdd := step("add", func() (string, error) {
			err := s2.Add(func(wr *reftable.Writer) error { sUI = s2.NextUpdateIndex(); return sT.Write(wr, sUI, hs) })
			sRes = hx.ErrString(err)
			if err != nil && !(err == reftable.ErrLockFailure && leftLock) {
				return "", fmt.Errorf("Add: %v (leftover tables.list.lock: %v)", err, leftLock)
			}
			return sRes, nil
		})
		if !okAdd {
			return n, nil
		}
		expect := pinned
		if sRes == "ok" {
			// apply s to whichever state was pinned
			base := before
			if pinned == afterC {
				base = afterDB
			}
			nb := base.Clone()
			refs, logs := sT.Records(sUI, hs, cfg.ExactLogMessage)
			for _, r := range refs {
				nb.PutRef(r)
			}
			for _, l := range logs {
				nb.PutLog(l)
			}
			expect = nb.CanonString(hs)
		}
		if !step("read2", readCheck("read2", expect)) {
			return n, nil
		}
		if !step("compactall", func() (string, error) {
			err := s2.CompactAll(nil)
			if err != nil && err != reftable.ErrLockFailure {
				return "", err
			}
			return "", nil
		}) {
			return n, nil
		}
		if !step("read3", readCheck("read3", expect)) {
			return n, nil
		}
		if !step("clean", func() (string, error) {
			err := s2.Clean()
			if err != nil && !(err == reftable.ErrLockFailure && leftLock) {
				return "", err
			}
			return "", nil
		}) {
			return n, nil
		}
		step("close", func() (string, error) { s2.Close(); return "", nil })
		if !step("reopen", open) {
			return n, nil
		}
		step("read4", readCheck("read4", expect))
		step("close2", func() (string, error) { s2.Close(); return "", nil })
		for _, mv := range w.Violations {
			vio(mv.Signature, fmt.Sprintf("%s crash before call %d/%d: %s", label, k, n, mv.Msg))
		}
		if w.HarnessErr != nil {
			return n, w.HarnessErr
		}
		if faulted {
			cr.faultCases++
		}
		if crashed || faulted {
			cr.nontrivial++
			if cr.sample == "" && crashed && k >= (cr.n+1)/2 && !operator {
				cr.sample = fmt.Sprintf("%s: victim killed before its vfs call %d; directory then %v; survivor saw %s, its Add: %s", label, k, w.Names(), map[bool]string{true: "AFTER", false: "BEFORE"}[pinned == afterC && beforeC != afterC], sRes)
			}
		}
		cr.cases++
		return n, nil
	}
	// k = 0 means no crash: the call completes (also gives n)
	n, err := oneCase(0, false, 0)
	if err != nil {
		return nil, err
	}
	cr.n = n
	for k := 1; k <= n; k++ {
		for _, operator := range []bool{false, true} {
			if _, err := oneCase(k, operator, 0); err != nil {
				return nil, err
			}
		}
	}
	// one failing filesystem call: the victim's j-th call returns EIO and the victim carries on (its error
	// path is part of the operation); it then finishes (k=0) or is killed before a later call k>j
	// (quick: only the call right after the failing one and the last one)
	for j := 1; j <= n+8; j++ {
		nj, err := oneCase(0, false, j)
		if err != nil {
			return nil, err
		}
		if j > nj {
			break
		}
		for k := j + 1; k <= nj; k++ {
			if quick && k != j+1 && k != nj {
				continue
			}
			if _, err := oneCase(k, false, j); err != nil {
				return nil, err
			}
		}
	}
	return cr, nil
}

// planAfter is the reference model's state after the victim's operation.
func planAfter(st *reftable.Stack, kind string, cfg reftable.Config, before *refdb.DB) *refdb.DB {
	hs := hsOf(cfg)
	ui := st.NextUpdateIndex()
	put := func(db *refdb.DB, id string, u uint64) *refdb.DB {
		n := db.Clone()
		refs, logs := stk.Txn(id).Records(u, hs, cfg.ExactLogMessage)
		for _, r := range refs {
			n.PutRef(r)
		}
		for _, l := range logs {
			n.PutLog(l)
		}
		return n
	}
	switch kind {
	case "add", "addauto":
		return put(before, "v", ui)
	case "addition2":
		return put(put(before, "v1", ui), "v2", ui+1)
	case "addition3":
		return put(put(put(before, "v1", ui), "v2", ui+1), "v3", ui+2)
	case "expiry":
		return before.Expire(900, 0, 0)
	}
	return before
}

func short(s string) string {
	s = strings.ReplaceAll(s, "\n", " ")
	f := strings.Fields(s)
	for i, w := range f {
		if strings.Contains(w, "0x") || strings.Contains(w, "/") {
			f[i] = "<path>"
		}
	}
	if len(f) > 8 {
		f = f[:8]
	}
	return strings.Join(f, "_")
}

func main() {
	prop := flag.String("property", "C06", "")
	tier := flag.String("tier", "quick", "")
	bindRep := flag.String("bindreport", "", "")
	replay := flag.String("replay", "", "")
	flag.Parse()
	run := report.NewRun(*prop, *tier, "fault_enumeration")
	cfgs := []reftable.Config{{}, {HashID: reftable.SHA256ID}}
	total, nontrivial, points := 0, 0, 0
	var perKind []map[string]interface{}
	var samples []interface{}
	type rp struct {
		Replay struct {
			Victim  string `json:"victim"`
			Initial string `json:"initial"`
			Hash    string `json:"hash"`
		} `json:"replay"`
	}
	var only *rp
	if *replay != "" {
		b, err := os.ReadFile(*replay)
		if err != nil {
			fmt.Println("HARNESS-ERROR", err)
			os.Exit(2)
		}
		only = &rp{}
		json.Unmarshal(b, only)
	}
	for _, v := range victims {
		for ii, init := range v.Inits {
			for ci, cfg := range cfgs {
				if *tier == "quick" && only == nil && (ci == 1 && ii > 0) {
					continue // quick: sha256 only on the first initial stack of each kind
				}
				if only != nil && !(only.Replay.Victim == v.Kind && only.Replay.Initial == init && only.Replay.Hash == stk.HashName(cfg)) {
					continue
				}
				cr, err := runKind(v, init, cfg, *tier == "quick")
				if err != nil {
					fmt.Println("HARNESS-ERROR", v.Kind, init, err)
					os.Exit(2)
				}
				total += cr.cases
				nontrivial += cr.nontrivial
				points += cr.n
				run.Violations = append(run.Violations, cr.violations...)
				perKind = append(perKind, map[string]interface{}{"victim": v.Kind, "initial": init, "hash": stk.HashName(cfg), "vfs_calls_of_the_call": cr.n, "crash_points_enumerated": cr.n, "cases": cr.cases, "cases_with_a_failing_call": cr.faultCases, "crashes_leaving_list_lock": cr.leftLock})
				if cr.sample != "" && len(samples) < 8 {
					samples = append(samples, cr.sample)
				}
			}
		}
	}
	if only != nil {
		for _, v := range run.Violations {
			fmt.Printf("violation: %s\n%s\n", v.Signature, v.Msg)
		}
		if len(run.Violations) > 0 {
			fmt.Printf("VIOLATION property=%s replay=%s\n", *prop, *replay)
			os.Exit(1)
		}
		fmt.Println("no violation on replay")
		os.Exit(0)
	}
	cov := run.Coverage
	cov["evaluations"] = total
	cov["distinct_nontrivial"] = nontrivial
	cov["rule"] = "one case = (victim call kind, initial stack, hash type, k): the victim runs alone on the real code and is killed immediately before its k-th filesystem call (every k from 1 to n, counting descriptor writes and closes too; k=0 lets it finish); then, once as is and once after an operator removed the leftover *.lock files, a survivor process opens, scans, adds, scans, compacts, scans, cleans, closes, reopens and scans. In addition one filesystem call of the victim fails: for every j the victim's j-th call returns EIO (writes, reads, opens, renames, closes of written descriptors; not removals), the victim runs on through its error path and either finishes or is killed before a later call k (thorough: every k>j; quick: k=j+1 and the last call), followed by the same survivor program; a failed operation must leave the state before or the state after, a successful one the state after. Non-trivial = the victim really died mid-call or a call really failed; all cases are distinct tuples"
	cov["samples"] = samples
	cov["exhaustive"] = true
	cov["crash_points_total"] = points
	cov["per_kind"] = perKind
	cov["states"] = total
	cov["transitions"] = points
	if *bindRep != "" {
		if b, err := os.ReadFile(*bindRep); err == nil {
			var br interface{}
			json.Unmarshal(b, &br)
			cov["binding"] = br
		}
	}
	run.Assumptions = []string{
		"process crash only: completed filesystem calls persist, the killed process runs no cleanup (the code never fsyncs; power loss is outside C06)",
		"POSIX directory model of DESIGN.md 4.1; one survivor, running sequentially after the crash (a concurrently running survivor is covered by the crash-as-choice scenarios of C05)",
	}
	os.Exit(run.Finish())
}
