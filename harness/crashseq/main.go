// Command crashseq decides C06: for every victim call kind, initial stack and
// hash type it enumerates EVERY filesystem-operation boundary of the call as a
// crash point, kills the victim there, and lets a survivor process run a fixed
// program on the real code; every read must show exactly the state before or
// after the victim's operation. The list-integrity invariant of C05 is
// evaluated after every filesystem mutation of victim and survivor.
package main

import (
	"encoding/json"
	"flag"
	"fmt"
	"os"
	"os/exec"
	"strings"
	"sync"

	"github.com/google/reftable"
	"github.com/google/reftable/zz_verif/rt"

	"verif/engine/mc"
	"verif/engine/monitor"
	"verif/internal/hx"
	"verif/internal/report"
	"verif/internal/stk"
	"verif/model/refdb"
)

type victim struct {
	Kind   string // add addauto addition2 compactall expiry range clean close
	Inits  []string
	NoAuto bool
}

var victims = []victim{
	{Kind: "add", Inits: []string{"empty", "one", "three", "orphan-empty"}, NoAuto: true},
	{Kind: "addauto", Inits: []string{"one", "two", "four", "cancel", "high2"}},
	{Kind: "addition2", Inits: []string{"empty", "two"}, NoAuto: true},
	{Kind: "addition3", Inits: []string{"one", "cancel"}, NoAuto: true},
	{Kind: "addempty", Inits: []string{"one"}, NoAuto: true},
	{Kind: "compactall", Inits: []string{"two", "three", "four", "cancel", "cancel2", "high2"}, NoAuto: true},
	{Kind: "expiry", Inits: []string{"two", "four"}, NoAuto: true},
	{Kind: "range", Inits: []string{"three", "four"}, NoAuto: true},
	{Kind: "range01", Inits: []string{"cancel"}, NoAuto: true},
	{Kind: "clean", Inits: []string{"empty", "two", "orphans", "orphan-empty"}, NoAuto: true},
	{Kind: "close", Inits: []string{"two", "orphans", "orphan-empty"}, NoAuto: true},
}

type caseResult struct {
	violations []report.V
	n          int // vfs calls of the complete victim call
	cases      int
	nontrivial int
	sample     string
	leftLock   int
	faultCases int
	chainCases int
}

func hsOf(cfg reftable.Config) int { return stk.HashSize(cfg) }

// runVictim performs the victim call; returns result string and the expected "after" model.
func runVictim(w *mc.World, p *mc.Proc, st *reftable.Stack, kind string, cfg reftable.Config, before *refdb.DB) (res string, after *refdb.DB, expectTxn bool) {
	hs := hsOf(cfg)
	applyTxn := func(db *refdb.DB, t hx.Txn, ui uint64) *refdb.DB {
		n := db.Clone()
		refs, logs := t.Records(ui, hs, cfg.ExactLogMessage)
		for _, r := range refs {
			if r.Kind == 0 {
				delete(n.Refs, r.Name)
			} else {
				n.PutRef(r)
			}
		}
		for _, l := range logs {
			if l.Deletion {
				delete(n.Logs, refdb.LogKey{Name: l.Name, UI: l.UpdateIndex})
			} else {
				n.PutLog(l)
			}
		}
		return n
	}
	after = before
	switch kind {
	case "add", "addauto":
		t := stk.Txn("v")
		ui := st.NextUpdateIndex()
		after = applyTxn(before, t, ui)
		err := st.Add(func(wr *reftable.Writer) error { return t.Write(wr, st.NextUpdateIndex(), hs) })
		return hx.ErrString(err), after, true
	case "addition2":
		ui := st.NextUpdateIndex()
		after = applyTxn(applyTxn(before, stk.Txn("v1"), ui), stk.Txn("v2"), ui+1)
		tr, err := st.NewAddition()
		if err != nil {
			return hx.ErrString(err), after, true
		}
		defer tr.Close()
		for i, id := range []string{"v1", "v2"} {
			t := stk.Txn(id)
			u := ui + uint64(i)
			if err := tr.Add(func(wr *reftable.Writer) error { return t.Write(wr, u, hs) }); err != nil {
				return hx.ErrString(err), after, true
			}
		}
		return hx.ErrString(tr.Commit()), after, true
	case "addition3":
		ui := st.NextUpdateIndex()
		tr, err := st.NewAddition()
		if err != nil {
			return hx.ErrString(err), after, true
		}
		defer tr.Close()
		for i, id := range []string{"v1", "v2", "v3"} {
			t := stk.Txn(id)
			u := ui + uint64(i)
			if err := tr.Add(func(wr *reftable.Writer) error { return t.Write(wr, u, hs) }); err != nil {
				return hx.ErrString(err), after, true
			}
		}
		return hx.ErrString(tr.Commit()), after, true
	case "addempty":
		t := stk.Txn("empty")
		err := st.Add(func(wr *reftable.Writer) error { return t.Write(wr, st.NextUpdateIndex(), hs) })
		return hx.ErrString(err), before, false
	case "range01":
		_, err := st.VerifCompactRange(0, 1, nil)
		return hx.ErrString(err), before, false
	case "compactall":
		return hx.ErrString(st.CompactAll(nil)), before, false
	case "expiry":
		after = before.Expire(900, 0, 0)
		return hx.ErrString(st.CompactAll(&reftable.LogExpirationConfig{Time: 900})), after, false
	case "range":
		_, err := st.VerifCompactRange(1, 2, nil)
		return hx.ErrString(err), before, false
	case "clean":
		return hx.ErrString(st.Clean()), before, false
	case "close":
		st.Close()
		return "ok", before, false
	}
	return "?", before, false
}

func initial(kind string, cfg reftable.Config) (map[string][]byte, error) {
	if kind != "orphans" {
		return stk.InitialDir(kind, cfg)
	}
	// two tables plus leftovers of crashed processes: an unlisted older table, a stale temp file
	base, err := stk.InitialDir("three", cfg)
	if err != nil {
		return nil, err
	}
	// compact on a copy so that the originals become unlisted orphans
	w := mc.NewWorld(stk.Dir)
	w.Restore(base)
	rt.E = w
	defer func() { rt.E = nil }()
	err = w.RunAtomic(func() error {
		st, err := reftable.NewStack(stk.Dir, cfg)
		if err != nil {
			return err
		}
		st.VerifSetAutoCompact(false)
		if _, err := st.VerifCompactRange(0, 1, nil); err != nil {
			return err
		}
		st.Close()
		return nil
	})
	if err != nil {
		return nil, err
	}
	m := w.Snapshot()
	// put the compacted-away inputs back, as if the compacting process had crashed before deleting them
	for n, b := range base {
		if _, ok := m[n]; !ok && strings.HasSuffix(n, ".ref") {
			m[n] = b
		}
	}
	m["0x000000000009-0x000000000009-deadbeef_x.reftmp"] = []byte("partial")
	return m, nil
}

// env is one case's world plus the bookkeeping shared by its stages.
type env struct {
	w     *mc.World
	cfg   reftable.Config
	hs    int
	label string
	ctx   string // "crash before call k/n ..." for messages
	cr    *caseResult
	rep   map[string]interface{}
}

func (e *env) vio(sig, msg string) {
	tr := make([]string, len(e.w.Trace))
	for i, ev := range e.w.Trace {
		tr[i] = ev.String()
	}
	rp := map[string]interface{}{"harness": "crashseq", "trace": tr, "message": msg}
	for k, v := range e.rep {
		rp[k] = v
	}
	e.cr.violations = append(e.cr.violations, report.V{Property: "C06", Signature: sig, Msg: msg, Count: 1, Replay: rp})
}

// step runs fn as process pid; a panic or an error is a violation.
func (e *env) step(pid int, name string, fn func() error) bool {
	var er error
	perr := e.w.As(pid, func() (err error) {
		defer func() {
			if r := recover(); r != nil {
				if fmt.Sprintf("%T", r) == "mc.killSentinel" {
					panic(r)
				}
				err = fmt.Errorf("PANIC: %v", r)
			}
		}()
		er = fn()
		return nil
	})
	if perr != nil {
		e.vio("crash:survivor-panics@"+name, fmt.Sprintf("%s %s: survivor %s: %v", e.label, e.ctx, name, perr))
		return false
	}
	if er != nil {
		e.vio("crash:survivor-"+name+"-fails:"+short(er.Error()), fmt.Sprintf("%s %s: survivor %s failed: %v; dir=%v list=%v", e.label, e.ctx, name, er, e.w.Names(), monitor.ListNames(e.w)))
		return false
	}
	return true
}

func (e *env) removeLocks() {
	for _, nm := range e.w.Names() {
		if strings.HasSuffix(nm, ".lock") {
			e.w.Unlink(nm)
		}
	}
}

// pin reads everything through st and returns the allowed model the view equals (nil: none).
func (e *env) pin(st *reftable.Stack, allowed []*refdb.DB) (*refdb.DB, error) {
	refs, logs, err := hx.ReadAll(st.Merged(), e.hs)
	if err != nil {
		return nil, err
	}
	got := hx.Joined(refs, logs)
	for _, a := range allowed {
		if got == a.CanonString(e.hs) {
			return a, nil
		}
	}
	return nil, fmt.Errorf("view is neither the state before nor the state after the operation:\n%s", got)
}

func applyS(base *refdb.DB, id string, ui uint64, hs int, exact bool) *refdb.DB {
	nb := base.Clone()
	refs, logs := stk.Txn(id).Records(ui, hs, exact)
	for _, r := range refs {
		nb.PutRef(r)
	}
	for _, l := range logs {
		nb.PutLog(l)
	}
	return nb
}

// survive is the survivor program: open, scan (one of allowed), add, scan, compact, scan, clean, close,
// reopen, scan. leftLock: a stale tables.list.lock is still there (writers may then fail with ErrLockFailure).
// It returns which state was pinned and the result of the Add.
func (e *env) survive(pid int, allowed []*refdb.DB, operator bool) (pinned *refdb.DB, sRes string, done bool) {
	w, cfg, hs := e.w, e.cfg, e.hs
	var s2 *reftable.Stack
	open := func() error {
		var er error
		s2, er = reftable.NewStack(stk.Dir, cfg)
		if er != nil {
			return er
		}
		s2.VerifSetAutoCompact(false)
		return nil
	}
	if !e.step(pid, "open", open) {
		return nil, "", false
	}
	if !e.step(pid, "read", func() error { var er error; pinned, er = e.pin(s2, allowed); return er }) {
		return nil, "", false
	}
	if operator {
		e.removeLocks()
	}
	leftLock := w.Lookup("tables.list.lock") != nil
	var sUI uint64
	if !e.step(pid, "add", func() error {
		err := s2.Add(func(wr *reftable.Writer) error { sUI = s2.NextUpdateIndex(); return stk.Txn("s").Write(wr, sUI, hs) })
		sRes = hx.ErrString(err)
		if err != nil && !(err == reftable.ErrLockFailure && leftLock) {
			return fmt.Errorf("Add: %v (leftover tables.list.lock: %v)", err, leftLock)
		}
		return nil
	}) {
		return pinned, sRes, false
	}
	expect := pinned
	if sRes == "ok" {
		expect = applyS(pinned, "s", sUI, hs, cfg.ExactLogMessage)
	}
	chk := func(name string) bool {
		return e.step(pid, name, func() error { _, er := e.pin(s2, []*refdb.DB{expect}); return er })
	}
	if !chk("read2") {
		return pinned, sRes, false
	}
	if !e.step(pid, "compactall", func() error {
		err := s2.CompactAll(nil)
		if err != nil && err != reftable.ErrLockFailure {
			return err
		}
		return nil
	}) {
		return pinned, sRes, false
	}
	if !chk("read3") {
		return pinned, sRes, false
	}
	if !e.step(pid, "clean", func() error {
		err := s2.Clean()
		if err != nil && !(err == reftable.ErrLockFailure && leftLock) {
			return err
		}
		return nil
	}) {
		return pinned, sRes, false
	}
	e.step(pid, "close", func() error { s2.Close(); return nil })
	if !e.step(pid, "reopen", open) {
		return pinned, sRes, false
	}
	chk("read4")
	e.step(pid, "close2", func() error { s2.Close(); return nil })
	return pinned, sRes, true
}

// victimRun opens a handle as process pid and runs one call of the given kind, killed before its k-th
// filesystem call (k=0: never) and with its j-th call failing (j=0: none; shortW: a failing write stores
// half of its bytes first). It returns the call's result ("crashed" if killed), the number of calls made and
// the model state after the complete operation.
func (e *env) victimRun(pid int, kind string, noAuto bool, base *refdb.DB, k, j int, shortW bool) (res string, n int, after *refdb.DB, faulted bool, err error) {
	w, cfg := e.w, e.cfg
	vp := w.Proc(pid)
	var st *reftable.Stack
	if er := w.As(pid, func() error {
		var e2 error
		st, e2 = reftable.NewStack(stk.Dir, cfg)
		if e2 == nil {
			st.VerifSetAutoCompact(!noAuto)
		}
		return e2
	}); er != nil {
		return "", 0, nil, false, fmt.Errorf("victim open: %v", er)
	}
	vp.OpCount = 0
	vp.CrashAt = k
	vp.FaultAt = j
	vp.FaultShort = shortW
	vp.Faults = 0
	// the expected state after the operation comes from the model alone, before the call runs
	after = planAfter(st, kind, cfg, base)
	verr := w.As(pid, func() (err error) {
		defer func() {
			if r := recover(); r != nil {
				if fmt.Sprintf("%T", r) == "mc.killSentinel" {
					panic(r)
				}
				res = fmt.Sprintf("PANIC: %v", r)
			}
		}()
		res, _, _ = runVictim(w, vp, st, kind, cfg, base)
		return nil
	})
	n = vp.OpCount
	if verr == mc.ErrCrashed {
		res = "crashed"
		vp.DropFDs()
	}
	faulted = vp.Faults > 0
	vp.FaultAt = 0
	vp.CrashAt = 0
	return res, n, after, faulted, nil
}

func newEnv(snap map[string][]byte, init string, cfg reftable.Config, label string, cr *caseResult) *env {
	w := mc.NewWorld(stk.Dir)
	w.Restore(snap)
	rt.E = w
	w.KeepTrace = true
	li := &monitor.ListIntegrity{Prop: "C06", HashID: stk.HashName(cfg), Cfg: cfg, CheckOpen: true}
	if init == "empty" || init == "orphan-empty" {
		li.HashID = ""
	}
	w.Monitors = append(w.Monitors, li)
	return &env{w: w, cfg: cfg, hs: hsOf(cfg), label: label, cr: cr}
}

func (e *env) finish() error {
	for _, mv := range e.w.Violations {
		e.vio(mv.Signature, fmt.Sprintf("%s %s: %s", e.label, e.ctx, mv.Msg))
	}
	return e.w.HarnessErr
}

// second-stage victims of the crash chains
var chainKinds = []victim{{Kind: "addauto"}, {Kind: "compactall", NoAuto: true}, {Kind: "clean", NoAuto: true}}

func runKind(v victim, init string, cfg reftable.Config, quick bool, chains bool, second int) (*caseResult, error) {
	cr := &caseResult{}
	snap, err := initial(init, cfg)
	if err != nil {
		return nil, fmt.Errorf("initial %s: %v", init, err)
	}
	before, err := stk.ModelOf(snap)
	if err != nil {
		return nil, err
	}
	label := fmt.Sprintf("%s/%s/%s", v.Kind, init, stk.HashName(cfg))

	// oneCase: the victim's j-th filesystem call fails (j=0: none) and the victim is killed
	// immediately before its k-th call (k=0: never).
	oneCase := func(k int, operator bool, j int, shortW bool) (n int, err error) {
		e := newEnv(snap, init, cfg, label, cr)
		defer func() { rt.E = nil }()
		e.rep = map[string]interface{}{"victim": v.Kind, "initial": init, "hash": stk.HashName(cfg), "crash_before_vfs_call": k, "failing_vfs_call": j, "short_write": shortW}
		res, n, afterDB, faulted, err := e.victimRun(0, v.Kind, v.NoAuto, before, k, j, shortW)
		if err != nil {
			return 0, err
		}
		e.rep["victim_calls_total"] = n
		e.ctx = fmt.Sprintf("crash before call %d/%d (victim: %s)", k, n, res)
		crashed := res == "crashed"
		if j > 0 && !faulted {
			return n, nil // the j-th call cannot fail (removal, close of a read-only descriptor) or was never reached
		}
		if strings.HasPrefix(res, "PANIC") {
			e.vio("crash:victim-panics@"+v.Kind, fmt.Sprintf("%s: victim call panicked (failing call %d): %s", label, j, res))
		}
		if !crashed && res != "ok" && !faulted {
			e.vio("crash:victim-fails-alone@"+v.Kind, fmt.Sprintf("%s: victim call failed without any crash: %s", label, res))
		}
		if e.w.Lookup("tables.list.lock") != nil && !operator {
			cr.leftLock++
		}
		allowed := []*refdb.DB{before, afterDB}
		if !crashed && res == "ok" {
			allowed = []*refdb.DB{afterDB}
		}
		pinned, sRes, done := e.survive(1, allowed, operator)
		if !done {
			return n, nil
		}
		if err := e.finish(); err != nil {
			return n, err
		}
		if faulted {
			cr.faultCases++
		}
		if crashed || faulted {
			cr.nontrivial++
			if cr.sample == "" && crashed && k >= (cr.n+1)/2 && !operator {
				cr.sample = fmt.Sprintf("%s: victim killed before its vfs call %d; directory then %v; survivor saw %s, its Add: %s", label, k, e.w.Names(), map[bool]string{true: "AFTER", false: "BEFORE"}[pinned == afterDB && before.CanonString(e.hs) != afterDB.CanonString(e.hs)], sRes)
			}
		}
		cr.cases++
		return n, nil
	}
	// k = 0 means no crash: the call completes (also gives n)
	n, err := oneCase(0, false, 0, false)
	if err != nil {
		return nil, err
	}
	cr.n = n
	if !chains {
		for k := 1; k <= n; k++ {
			for _, operator := range []bool{false, true} {
				if _, err := oneCase(k, operator, 0, false); err != nil {
					return nil, err
				}
			}
		}
		// one failing filesystem call: the victim's j-th call fails and the victim carries on (its error
		// path is part of the operation); it then finishes (k=0) or is killed before a later call k>j
		// (quick: only the call right after the failing one and the last one). Each failing call is tried as
		// EIO without effect and, for writes, as a short write (half of the bytes stored, then ENOSPC).
		for _, shortW := range []bool{false, true} {
			for j := 1; j <= n+8; j++ {
				nj, err := oneCase(0, false, j, shortW)
				if err != nil {
					return nil, err
				}
				if j > nj {
					break
				}
				for k := j + 1; k <= nj; k++ {
					if quick && k != j+1 && k != nj {
						continue
					}
					if _, err := oneCase(k, false, j, shortW); err != nil {
						return nil, err
					}
				}
			}
		}
		return cr, nil
	}

	// Crash chains: the victim is killed before its k1-th call; an operator removes leftover locks; a second
	// process opens the directory, reads (pinning S1 in {before, after}), runs one call of a second kind
	// and is itself killed before its k2-th call (every k2); locks are removed again and the survivor program
	// must see S1 or S1 followed by the second operation. The second victim thus starts from every
	// directory state a crash can leave behind, not only from tidy ones.
	for k1 := 1; k1 <= n; k1++ {
		for vi, v2 := range chainKinds {
			if second >= 0 && vi != second {
				continue
			}
			n2 := -1
			for k2 := 0; n2 < 0 || k2 <= n2; k2++ {
				e := newEnv(snap, init, cfg, label+">"+v2.Kind, cr)
				e.rep = map[string]interface{}{"victim": v.Kind, "initial": init, "hash": stk.HashName(cfg), "crash_before_vfs_call": k1, "second_victim": v2.Kind, "second_crash_before_vfs_call": k2, "chain": true}
				res1, _, after1, _, err := e.victimRun(0, v.Kind, v.NoAuto, before, k1, 0, false)
				if err != nil {
					rt.E = nil
					return nil, err
				}
				e.ctx = fmt.Sprintf("first crash before call %d/%d (%s), second victim %s", k1, n, res1, v2.Kind)
				e.removeLocks()
				// second victim: pin S1 through a handle of its own
				var s1 *refdb.DB
				var ps *reftable.Stack
				ok := e.step(1, "open", func() error {
					var er error
					ps, er = reftable.NewStack(stk.Dir, cfg)
					return er
				}) && e.step(1, "read", func() error { var er error; s1, er = e.pin(ps, []*refdb.DB{before, after1}); return er })
				if ok {
					e.step(1, "close", func() error { ps.Close(); return nil })
					res2, m2, after2, _, err := e.victimRun(1, v2.Kind, v2.NoAuto, s1, k2, 0, false)
					if err != nil {
						e.vio("crash:survivor-open-fails:"+short(err.Error()), fmt.Sprintf("%s %s: %v", e.label, e.ctx, err))
					} else {
						if k2 == 0 {
							n2 = m2
						}
						e.ctx += fmt.Sprintf(" killed before call %d/%d (%s)", k2, m2, res2)
						if strings.HasPrefix(res2, "PANIC") {
							e.vio("crash:victim-panics@"+v2.Kind, fmt.Sprintf("%s %s: second victim panicked: %s", e.label, e.ctx, res2))
						}
						if res2 != "crashed" && res2 != "ok" {
							e.vio("crash:victim-fails-alone@"+v2.Kind, fmt.Sprintf("%s %s: second victim's call failed without any crash of its own: %s", e.label, e.ctx, res2))
						}
						allowed := []*refdb.DB{s1, after2}
						if res2 == "ok" {
							allowed = []*refdb.DB{after2}
						}
						e.removeLocks()
						if _, _, done := e.survive(2, allowed, true); done {
							if err := e.finish(); err != nil {
								rt.E = nil
								return nil, err
							}
							cr.cases++
							if res1 == "crashed" && res2 == "crashed" {
								cr.nontrivial++
								cr.chainCases++
								if cr.sample == "" && k1 >= n/2 && k2 >= m2/2 {
									cr.sample = fmt.Sprintf("%s: first victim killed before call %d/%d, second victim (%s) killed before call %d/%d; directory then %v", label, k1, n, v2.Kind, k2, m2, e.w.Names())
								}
							}
						}
					}
				}
				rt.E = nil
				if n2 < 0 {
					n2 = 0 // the complete second call could not even be run: reported above
				}
			}
		}
	}
	return cr, nil
}

// planAfter is the reference model's state after the victim's operation.
func planAfter(st *reftable.Stack, kind string, cfg reftable.Config, before *refdb.DB) *refdb.DB {
	hs := hsOf(cfg)
	ui := st.NextUpdateIndex()
	put := func(db *refdb.DB, id string, u uint64) *refdb.DB {
		n := db.Clone()
		refs, logs := stk.Txn(id).Records(u, hs, cfg.ExactLogMessage)
		for _, r := range refs {
			n.PutRef(r)
		}
		for _, l := range logs {
			n.PutLog(l)
		}
		return n
	}
	switch kind {
	case "add", "addauto":
		return put(before, "v", ui)
	case "addition2":
		return put(put(before, "v1", ui), "v2", ui+1)
	case "addition3":
		return put(put(put(before, "v1", ui), "v2", ui+1), "v3", ui+2)
	case "expiry":
		return before.Expire(900, 0, 0)
	}
	return before
}

func short(s string) string {
	s = strings.ReplaceAll(s, "\n", " ")
	f := strings.Fields(s)
	for i, w := range f {
		if strings.Contains(w, "0x") || strings.Contains(w, "/") {
			f[i] = "<path>"
		}
	}
	if len(f) > 8 {
		f = f[:8]
	}
	return strings.Join(f, "_")
}

type job struct {
	V     victim
	Init  string
	Cfg   int
	Chain bool
	Second int // crash chains: index of the second victim's kind in chainKinds
}

type jobOut struct {
	Violations []report.V
	N, Cases   int
	Nontrivial int
	Sample     string
	LeftLock   int
	FaultCases int
	ChainCases int
	Err        string
}

var cfgs = []reftable.Config{{}, {HashID: reftable.SHA256ID}}

func jobs(tier string) []job {
	var js []job
	for _, v := range victims {
		for ii, init := range v.Inits {
			for ci := range cfgs {
				if tier == "quick" && (ci == 1 && ii > 0) {
					continue // quick: sha256 only on the first initial stack of each kind
				}
				js = append(js, job{V: v, Init: init, Cfg: ci})
				// crash chains: quick runs them on SHA-1 for the first initial stack of each kind (three-table
				// Additions, the longest calls, only in the thorough tier)
				if tier == "thorough" || (ci == 0 && ii < 1 && v.Kind != "addition3") {
					for k := range chainKinds {
						js = append(js, job{V: v, Init: init, Cfg: ci, Chain: true, Second: k})
					}
				}
			}
		}
	}
	return js
}

func main() {
	prop := flag.String("property", "C06", "")
	tier := flag.String("tier", "quick", "")
	bindRep := flag.String("bindreport", "", "")
	replay := flag.String("replay", "", "")
	jobIdx := flag.Int("job", -1, "internal: run one job and print its result as JSON")
	flag.Parse()
	js := jobs(*tier)
	if *jobIdx >= 0 {
		j := js[*jobIdx]
		out := jobOut{}
		cr, err := runKind(j.V, j.Init, cfgs[j.Cfg], *tier == "quick", j.Chain, j.Second)
		if err != nil {
			out.Err = err.Error()
		} else {
			out = jobOut{Violations: cr.violations, N: cr.n, Cases: cr.cases, Nontrivial: cr.nontrivial, Sample: cr.sample, LeftLock: cr.leftLock, FaultCases: cr.faultCases, ChainCases: cr.chainCases}
		}
		b, _ := json.Marshal(out)
		fmt.Println("JOBRESULT " + string(b))
		return
	}
	run := report.NewRun(*prop, *tier, "fault_enumeration")
	total, nontrivial, points, chainTotal := 0, 0, 0, 0
	var perKind []map[string]interface{}
	var samples []interface{}
	type rp struct {
		Replay struct {
			Victim  string `json:"victim"`
			Initial string `json:"initial"`
			Hash    string `json:"hash"`
			Chain   bool   `json:"chain"`
		} `json:"replay"`
	}
	if *replay != "" {
		b, err := os.ReadFile(*replay)
		if err != nil {
			fmt.Println("HARNESS-ERROR", err)
			os.Exit(2)
		}
		only := &rp{}
		json.Unmarshal(b, only)
		for _, v := range victims {
			for _, init := range v.Inits {
				for _, cfg := range cfgs {
					if !(only.Replay.Victim == v.Kind && only.Replay.Initial == init && only.Replay.Hash == stk.HashName(cfg)) {
						continue
					}
					cr, err := runKind(v, init, cfg, false, only.Replay.Chain, -1)
					if err != nil {
						fmt.Println("HARNESS-ERROR", v.Kind, init, err)
						os.Exit(2)
					}
					run.Violations = append(run.Violations, cr.violations...)
				}
			}
		}
		for _, v := range run.Violations {
			fmt.Printf("violation: %s\n%s\n", v.Signature, v.Msg)
		}
		if len(run.Violations) > 0 {
			fmt.Printf("VIOLATION property=%s replay=%s\n", *prop, *replay)
			os.Exit(1)
		}
		fmt.Println("no violation on replay")
		os.Exit(0)
	}
	// parent: one subprocess per (victim kind, initial stack, hash type, plain|chains), up to 16 at a time
	self, _ := os.Executable()
	outs := make([]jobOut, len(js))
	var wg sync.WaitGroup
	sem := make(chan struct{}, 16)
	for i := range js {
		wg.Add(1)
		go func(i int) {
			defer wg.Done()
			sem <- struct{}{}
			defer func() { <-sem }()
			cmd := exec.Command(self, "--property", *prop, "--tier", *tier, "--job", fmt.Sprint(i))
			cmd.Env = append(os.Environ(), "GOMAXPROCS=1")
			out, err := cmd.CombinedOutput()
			found := false
			for _, l := range strings.Split(string(out), "\n") {
				if strings.HasPrefix(l, "JOBRESULT ") && json.Unmarshal([]byte(l[len("JOBRESULT "):]), &outs[i]) == nil {
					found = true
				}
			}
			if !found {
				tail := string(out)
				if len(tail) > 2000 {
					tail = tail[len(tail)-2000:]
				}
				outs[i].Err = fmt.Sprintf("worker died: %v\n%s", err, tail)
			}
		}(i)
	}
	wg.Wait()
	for i, j := range js {
		o := outs[i]
		if o.Err != "" {
			fmt.Println("HARNESS-ERROR", j.V.Kind, j.Init, o.Err)
			os.Exit(2)
		}
		total += o.Cases
		nontrivial += o.Nontrivial
		chainTotal += o.ChainCases
		if !j.Chain {
			points += o.N
		}
		run.Violations = append(run.Violations, o.Violations...)
		perKind = append(perKind, map[string]interface{}{"victim": j.V.Kind, "initial": j.Init, "hash": stk.HashName(cfgs[j.Cfg]), "crash_chains": j.Chain, "second_victim": map[bool]string{true: chainKinds[j.Second].Kind, false: ""}[j.Chain], "vfs_calls_of_the_call": o.N, "crash_points_enumerated": o.N, "cases": o.Cases, "cases_with_a_failing_call": o.FaultCases, "cases_with_two_crashes": o.ChainCases, "crashes_leaving_list_lock": o.LeftLock})
		if o.Sample != "" && len(samples) < 10 {
			samples = append(samples, o.Sample)
		}
	}
	cov := run.Coverage
	cov["evaluations"] = total
	cov["distinct_nontrivial"] = nontrivial
	cov["rule"] = "one case = (victim call kind, initial stack, hash type, k): the victim runs alone on the real code and is killed immediately before its k-th filesystem call (every k from 1 to n, counting descriptor writes and closes too; k=0 lets it finish); then, once as is and once after an operator removed the leftover *.lock files, a survivor process opens, scans, adds, scans, compacts, scans, cleans, closes, reopens and scans. In addition one filesystem call of the victim fails: for every j the victim's j-th call fails (writes, reads, opens, renames, closes of written descriptors; not removals) - once with EIO and no effect, once (writes) as a short write that stores half of the bytes and reports ENOSPC -, the victim runs on through its error path and either finishes or is killed before a later call k (thorough: every k>j; quick: k=j+1 and the last call), followed by the same survivor program; a failed operation must leave the state before or the state after, a successful one the state after. Crash chains: after the first victim was killed before call k1 (every k1) and leftover locks were removed, a second process opens the directory, pins the state S1 it sees, performs an auto-compacting Add, a CompactAll or a Clean and is killed before its k2-th call (every k2); the survivor program must then see S1 or S1 followed by the second operation. Non-trivial = the victim(s) really died mid-call or a call really failed; all cases are distinct tuples"
	cov["samples"] = samples
	cov["exhaustive"] = true
	cov["crash_points_total"] = points
	cov["cases_with_two_crashes"] = chainTotal
	cov["per_kind"] = perKind
	cov["states"] = total
	cov["transitions"] = points
	if *bindRep != "" {
		if b, err := os.ReadFile(*bindRep); err == nil {
			var br interface{}
			json.Unmarshal(b, &br)
			cov["binding"] = br
		}
	}
	run.Assumptions = []string{
		"process crash only: completed filesystem calls persist, the killed process runs no cleanup (the code never fsyncs; power loss is outside C06)",
		"POSIX directory model of DESIGN.md 4.1; survivors run sequentially after the crash (a concurrently running survivor is covered by the crash-as-choice scenarios of C05)",
		"injected faults: one failing call per victim, EIO without effect or a short write; persistent conditions (every later write failing) are outside",
	}
	os.Exit(run.Finish())
}
