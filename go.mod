module verif

go 1.23

require github.com/google/reftable v0.0.0

replace github.com/google/reftable => /repo
