package main

import (
	"encoding/json"
	"flag"
	"fmt"
	"os"
	"strings"

	"verif/internal/bind"
)

func main() {
	repo := flag.String("repo", "/repo", "")
	verif := flag.String("verif", "/verif", "")
	scratch := flag.String("scratch", "", "")
	exports := flag.String("exports", "export_stack.go,export_merged.go", "")
	flag.Parse()
	if *scratch == "" {
		fmt.Fprintln(os.Stderr, "need --scratch")
		os.Exit(2)
	}
	p, rep, err := bind.Bind(bind.Options{Repo: *repo, Verif: *verif, Scratch: *scratch, Exports: strings.Split(*exports, ",")})
	if err != nil {
		fmt.Fprintln(os.Stderr, "HARNESS-ERROR bind:", err)
		os.Exit(2)
	}
	js, _ := json.MarshalIndent(rep, "", " ")
	fmt.Println(p)
	fmt.Println(string(js))
}
