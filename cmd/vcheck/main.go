// Command vcheck is the single entry point of every MANIFEST command:
//
//	vcheck <property> [--tier quick|thorough] [harness flags…]
//	vcheck replay <file>
//
// It binds the machinery to /repo's current working tree (internal/bind), builds the
// property's harness with `go build -overlay`, runs it and removes the scratch directory.
// Exit codes: 0 held, 1 VIOLATION, 2 HARNESS-ERROR.
package main

import (
	"encoding/json"
	"fmt"
	"os"
	"os/exec"
	"path/filepath"
	"strings"
	"syscall"
	"time"

	"verif/internal/bind"
)

type harnessSpec struct {
	Dir        string
	Exports    []string
	NoRedirect bool
	Race       bool // also build the harness with -race (supplementary free-running pass)
}

var harnessOf = map[string]harnessSpec{
	"C04": {"stackmc", []string{"export_stack.go"}, false, false},
	"C05": {"stackmc", []string{"export_stack.go"}, false, false},
	"C08": {"stackmc", []string{"export_stack.go"}, false, false},
	"C10": {"stackmc", []string{"export_stack.go"}, false, false},
	"C16": {"stackmc", []string{"export_stack.go"}, false, false},
	"C06": {"crashseq", []string{"export_stack.go"}, false, false},
	"C07": {"seqbfs", []string{"export_stack.go"}, false, false},
	"C09": {"seqbfs", []string{"export_stack.go"}, false, false},
	"C12": {"seqbfs", []string{"export_stack.go"}, false, false},
	"C13": {"seqbfs", []string{"export_stack.go"}, false, false},
	"C17": {"autocompact", []string{"export_stack.go"}, false, false},
	"C01": {"codec", []string{"export_merged.go", "export_stack.go"}, false, false},
	"C02": {"codec", []string{"export_merged.go", "export_stack.go"}, false, false},
	"C14": {"codec", []string{"export_merged.go", "export_stack.go"}, false, false},
	"C03": {"codec", []string{"export_merged.go", "export_stack.go"}, false, false},
	"C11": {"codec", []string{"export_merged.go", "export_stack.go"}, false, false},
	"C18": {"corrupt", nil, false, false},
	"C19": {"sharedread", []string{"export_merged.go"}, false, true},
	"C15": {"cdiff", []string{"export_stack.go"}, true, false},
}

func fail(format string, a ...interface{}) {
	fmt.Printf("HARNESS-ERROR "+format+"\n", a...)
	os.Exit(2)
}

func main() {
	if len(os.Args) < 2 {
		fail("usage: vcheck <property>|replay <file> [flags]")
	}
	verif := os.Getenv("VERIF_DIR")
	if verif == "" {
		verif = "/verif"
	}
	repo := os.Getenv("VERIF_REPO")
	if repo == "" {
		repo = "/repo"
	}
	prop := os.Args[1]
	args := os.Args[2:]
	if prop == "replay" {
		if len(args) < 1 {
			fail("usage: vcheck replay <file>")
		}
		b, err := os.ReadFile(args[0])
		if err != nil {
			fail("%v", err)
		}
		var v struct {
			Property string `json:"property"`
		}
		if err := json.Unmarshal(b, &v); err != nil || v.Property == "" {
			fail("replay file %s has no property", args[0])
		}
		prop = v.Property
		args = append([]string{"--replay", args[0]}, args[1:]...)
	}
	hs, ok := harnessOf[prop]
	if !ok {
		fail("unknown property %q", prop)
	}
	if t := os.Getenv("VERIF_TIER"); t != "" {
		has := false
		for _, a := range args {
			if strings.HasPrefix(a, "--tier") || strings.HasPrefix(a, "-tier") {
				has = true
			}
		}
		if !has {
			args = append(args, "--tier", t)
		}
	}
	os.MkdirAll("/var/tmp", 0o777)
	scratch, err := os.MkdirTemp("/var/tmp", "vcheck-"+prop+"-")
	if err != nil {
		fail("%v", err)
	}
	code := run(prop, hs, verif, repo, scratch, args)
	os.RemoveAll(scratch)
	os.Exit(code)
}

func run(prop string, hs harnessSpec, verif, repo, scratch string, args []string) int {
	extra := map[string]string{}
	// VERIF_OVERLAY_EXTRA: "target=source,…" additional overlay entries (used by the detection
	// demonstrations to apply a changed file without touching /repo)
	if e := os.Getenv("VERIF_OVERLAY_EXTRA"); e != "" {
		for _, kv := range strings.Split(e, ",") {
			p := strings.SplitN(kv, "=", 2)
			if len(p) == 2 {
				extra[p[0]] = p[1]
			}
		}
	}
	ov, rep, err := bind.Bind(bind.Options{Repo: repo, Verif: verif, Scratch: scratch, Exports: hs.Exports, NoRedirect: hs.NoRedirect, Extra: extra})
	if err != nil {
		fmt.Printf("HARNESS-ERROR bind: %v\n", err)
		return 2
	}
	js, _ := json.Marshal(rep)
	brep := filepath.Join(scratch, "bind.json")
	os.WriteFile(brep, js, 0o644)
	bin := filepath.Join(scratch, "harness")
	env := append(os.Environ(), "GOFLAGS=-mod=mod", "GOPROXY=off", "GOSUMDB=off", "GOTOOLCHAIN=local", "VERIF_DIR="+verif, "VERIF_REPO="+repo)
	build := exec.Command("go", "build", "-overlay", ov, "-o", bin, "./harness/"+hs.Dir)
	build.Dir = verif
	build.Env = env
	if out, err := build.CombinedOutput(); err != nil {
		fmt.Printf("HARNESS-ERROR build of harness %s against %s failed: %v\n%s\n", hs.Dir, repo, err, out)
		return 2
	}
	raceBin := ""
	if hs.Race {
		raceBin = filepath.Join(scratch, "harness-race")
		rb := exec.Command("go", "build", "-race", "-overlay", ov, "-o", raceBin, "./harness/"+hs.Dir)
		rb.Dir = verif
		rb.Env = append(env, "CGO_ENABLED=1")
		if out, err := rb.CombinedOutput(); err != nil {
			fmt.Printf("NOTE: the supplementary -race build failed (%v); continuing without it\n%s\n", err, out)
			raceBin = ""
		}
	}
	full := append([]string{"--property", prop, "--bindreport", brep}, args...)
	cmd := exec.Command(bin, full...)
	cmd.Dir = verif
	cmd.Env = append(env, "VERIF_SCRATCH="+scratch, "VERIF_RACE_BIN="+raceBin)
	cmd.Stdout = os.Stdout
	cmd.Stderr = os.Stderr
	// Watchdog: a harness that does not finish (code under test blocking on something the scheduler does not
	// model, e.g. a channel) is a harness error, never a verdict. The harness and its workers form one
	// process group, which is killed as a whole.
	cmd.SysProcAttr = &syscall.SysProcAttr{Setpgid: true}
	limit := 4 * time.Hour
	for i, a := range full {
		if (a == "--tier" || a == "-tier") && i+1 < len(full) && full[i+1] == "thorough" {
			limit = 24 * time.Hour
		}
	}
	if err := cmd.Start(); err != nil {
		fmt.Printf("HARNESS-ERROR running harness: %v\n", err)
		return 2
	}
	done := make(chan error, 1)
	go func() { done <- cmd.Wait() }()
	select {
	case err = <-done:
	case <-time.After(limit):
		syscall.Kill(-cmd.Process.Pid, syscall.SIGKILL)
		<-done
		fmt.Printf("HARNESS-ERROR harness %s did not finish within %v and was killed\n", hs.Dir, limit)
		return 2
	}
	if err != nil {
		if ee, ok := err.(*exec.ExitError); ok {
			return ee.ExitCode()
		}
		fmt.Printf("HARNESS-ERROR running harness: %v\n", err)
		return 2
	}
	return 0
}
