// Package mc is engine E1: an in-memory POSIX-like directory, a cooperative
// scheduler that owns every filesystem call of the code under test, and a
// deviation-bounded stateless explorer with a state cache. See DESIGN.md section 4.
package mc

import (
	"errors"
	"fmt"
	"hash/fnv"
	"io"
	"os"
	"path/filepath"
	"sort"
	"strings"
	"syscall"
	"time"

	"github.com/google/reftable/zz_verif/rt"
)

// ---------------------------------------------------------------- filesystem model

type Inode struct {
	ID      int
	Data    []byte
	Creator int // pid of the process whose create produced this inode
	hash    uint64
	hashOK  bool
}

func (i *Inode) Hash() uint64 {
	if !i.hashOK {
		h := fnv.New64a()
		h.Write(i.Data)
		i.hash = h.Sum64()
		i.hashOK = true
	}
	return i.hash
}

type fd struct {
	w      *World
	ino    *Inode
	name   string // full path it was opened under
	write  bool
	off    int64
	closed bool
	owner  *Proc
	// appendMode: every write goes to the current end of the file (O_APPEND)
	appendMode bool
}

// Op describes one filesystem call (or an API-call boundary) of a process.
type Op struct {
	Kind  string // create open rename remove readfile writefile tempfile readdir stat link write read readat close call
	Name  string // base name (or API call label for Kind=="call")
	Name2 string
}

func (o Op) String() string {
	if o.Name2 != "" {
		return fmt.Sprintf("%s(%s,%s)", o.Kind, o.Name, o.Name2)
	}
	return fmt.Sprintf("%s(%s)", o.Kind, o.Name)
}

// Event is one executed operation as seen by monitors and traces.
type Event struct {
	Pid    int
	Op     Op
	Err    string
	Result string // short description of the result (content hash, name drawn …)
	// for mutations
	Mutated bool
	// the inode that was at Name / Name2 before the op, if any
	OldIno, OldIno2 *Inode
	NewIno          *Inode
}

func (e Event) String() string {
	s := fmt.Sprintf("p%d %s", e.Pid, e.Op)
	if e.Err != "" {
		s += " -> ERR " + e.Err
	} else if e.Result != "" {
		s += " -> " + e.Result
	}
	return s
}

// Monitor is an oracle evaluated on every state.
type Monitor interface {
	// AfterOp runs after a filesystem operation has been applied.
	AfterOp(w *World, ev *Event)
	// AfterCall runs when an API call of a process has returned.
	AfterCall(w *World, p *Proc, call int, res string)
	// AtEnd runs when every process has finished (crash-free quiescence is the monitor's business).
	AtEnd(w *World)
	// Key folds the monitor's state into the state key.
	Key(h io.Writer)
}

// Violation is a monitor verdict.
type Violation struct {
	Property  string
	Signature string
	Msg       string
}

type killSentinel struct{}

// World is one execution's universe: directory, processes, clock, monitors.
type World struct {
	Dir      string
	names    map[string]*Inode
	nextIno  int
	Procs    []*Proc
	cur      *Proc
	Monitors []Monitor
	Atomic   bool // no scheduling points (sequential harnesses, set-up)
	// AllVisible turns the visibility reduction off (every vfs call is a scheduling point).
	AllVisible bool
	// BeforePoint is called when a scheduled process reaches a scheduling point, before it yields:
	// everything since its previous point was done by this process alone.
	BeforePoint func(p *Proc)
	// OnSync is called after a synchronisation operation of the sync shim completed
	// (kind: mutex-lock, mutex-unlock, rwmutex-lock, …).
	OnSync     func(p *Proc, kind string)
	clock      time.Time
	Trace      []Event
	KeepTrace  bool
	Violations []Violation
	yieldCh    chan *Proc
	steps      int
	// MapPerm: when non-nil, decides map iteration order (deviation)
	MapPerm func(keys []string) []string
	// HarnessErr is set when an assumption of the engine itself is broken.
	HarnessErr error
	// EventCount counts all vfs calls (visible or not) per process: used for crash enumeration
	globalsHash func() uint64
}

func NewWorld(dir string) *World {
	return &World{
		Dir:     dir,
		names:   map[string]*Inode{},
		clock:   time.Unix(1600000000, 0),
		yieldCh: make(chan *Proc),
	}
}

func (w *World) base(name string) (string, error) {
	d, b := filepath.Split(name)
	if filepath.Clean(d) != filepath.Clean(w.Dir) {
		return "", &os.PathError{Op: "open", Path: name, Err: syscall.ENOENT}
	}
	return b, nil
}

// Snapshot returns the directory as name -> contents.
func (w *World) Snapshot() map[string][]byte {
	m := make(map[string][]byte, len(w.names))
	for n, i := range w.names {
		m[n] = append([]byte(nil), i.Data...)
	}
	return m
}

// Restore installs a directory; inodes are created by pid -1 (pre-existing).
func (w *World) Restore(m map[string][]byte) {
	w.names = make(map[string]*Inode, len(m))
	ks := make([]string, 0, len(m))
	for n := range m {
		ks = append(ks, n)
	}
	sort.Strings(ks)
	for _, n := range ks {
		w.nextIno++
		w.names[n] = &Inode{ID: w.nextIno, Data: append([]byte(nil), m[n]...), Creator: -1}
	}
}

func (w *World) Names() []string {
	ks := make([]string, 0, len(w.names))
	for n := range w.names {
		ks = append(ks, n)
	}
	sort.Strings(ks)
	return ks
}

func (w *World) Lookup(name string) *Inode { return w.names[name] }

// DirKey hashes the directory (names, contents, creators).
func (w *World) DirKey(h io.Writer) {
	for _, n := range w.Names() {
		i := w.names[n]
		fmt.Fprintf(h, "%s\x00%x\x00%d\x00", n, i.Hash(), i.Creator)
	}
}

func (w *World) Violate(prop, sig, msg string) {
	w.Violations = append(w.Violations, Violation{prop, sig, msg})
}

// ---------------------------------------------------------------- processes

// Call is one API call of a process program. It returns a short result string
// (e.g. "ok", "ErrLockFailure", "err: …") that is part of the observable outcome.
type Call struct {
	Label string
	Fn    func(p *Proc) string
}

type Proc struct {
	ID        int
	w         *World
	Prog      []Call
	CallIdx   int // index of the call in progress or about to start
	Results   []string
	resume    chan struct{}
	started   bool
	Finished  bool
	Crashed   bool
	killed    bool
	Panic     string
	pending   Op
	obs       uint64 // rolling hash of everything the process has observed
	fds       []*fd
	randCtr   int
	tmpCtr    int
	OpCount   int  // all vfs calls made so far (visible or not)
	CrashAt   int  // if >0: crash immediately before the vfs call with this ordinal (1-based)
	faultNext bool // the pending filesystem call fails with EIO and has no effect (injected fault)
	FaultAt   int  // if >0: the vfs call with this ordinal (1-based, reads and writes included) fails with EIO
	// FaultShort: an injected fault that hits a write of two or more bytes stores the first half of the
	// bytes and then fails with ENOSPC (a short write on a full disk) instead of failing without effect.
	FaultShort bool
	// FaultSticky: once one fault has hit the process, every later call of it that needs disk space (create,
	// temp file, write) fails too, to the end of its program: a disk that stays full.
	FaultSticky bool
	Faults    int
	InCall    bool
	// waitReady, when set, makes the process runnable only while it returns true (it is parked at a
	// blocking synchronisation operation of the code under test: see WaitUntil)
	waitReady func() bool
	// Local is free for the harness (e.g. the process's handles).
	Local map[string]interface{}
}

func (w *World) AddProc(prog []Call) *Proc {
	p := &Proc{ID: len(w.Procs), w: w, Prog: prog, resume: make(chan struct{}), Local: map[string]interface{}{}}
	w.Procs = append(w.Procs, p)
	return p
}

func (p *Proc) observe(parts ...interface{}) {
	h := fnv.New64a()
	fmt.Fprintf(h, "%x|", p.obs)
	fmt.Fprint(h, parts...)
	p.obs = h.Sum64()
}

func (p *Proc) Pending() Op { return p.pending }

// point is a scheduling point: the process announces op and waits to be resumed.
func (p *Proc) point(op Op) {
	if p.killed {
		panic(killSentinel{})
	}
	if p.w.Atomic {
		return
	}
	if p.w.BeforePoint != nil {
		p.w.BeforePoint(p)
	}
	p.pending = op
	p.w.yieldCh <- p
	<-p.resume
	if p.killed {
		panic(killSentinel{})
	}
}

// enter is called at the start of every vfs call. visible decides whether it is a scheduling point.
// Faultable reports whether an injected I/O fault may hit this kind of call. Removals and
// closes of read-only descriptors are excluded: a failed removal leaves residue by definition,
// not by a defect. Closing a descriptor that was opened for writing ("closew") can fail (EIO,
// ENOSPC, EDQUOT on delayed allocation or network filesystems); the descriptor is gone either way.
func Faultable(kind string) bool {
	switch kind {
	case "create", "createx", "open", "tempfile", "rename", "readfile", "readdir", "write", "writefile", "link", "stat", "closew", "truncate":
		return true
	}
	return false
}

// takeFault consumes an injected fault for the call the process is about to perform.
func (p *Proc) takeFault() bool {
	if p.faultNext {
		p.faultNext = false
		p.Faults++
		return true
	}
	return false
}

func (w *World) enter(op Op, visible bool) *Proc {
	p := w.cur
	if p == nil {
		panic("vfs call outside any process")
	}
	if p.killed {
		panic(killSentinel{})
	}
	p.OpCount++
	if p.CrashAt > 0 && p.OpCount == p.CrashAt {
		p.killed = true
		p.Crashed = true
		panic(killSentinel{})
	}
	if p.FaultAt > 0 && p.OpCount == p.FaultAt && op.Kind != "close" && op.Kind != "remove" {
		p.faultNext = true
	}
	if p.FaultSticky && p.Faults > 0 {
		switch op.Kind {
		case "create", "createx", "tempfile", "write", "writefile":
			p.faultNext = true
		}
	}
	if visible || w.AllVisible {
		p.point(op)
	}
	return p
}

func (w *World) record(ev *Event) {
	w.steps++
	p := w.Procs[ev.Pid]
	p.observe(ev.Op.Kind, ev.Op.Name, ev.Op.Name2, ev.Err, ev.Result)
	if w.KeepTrace {
		w.Trace = append(w.Trace, *ev)
	}
	for _, m := range w.Monitors {
		m.AfterOp(w, ev)
	}
}

func (p *Proc) run() {
	defer func() {
		if r := recover(); r != nil {
			if _, ok := r.(killSentinel); !ok {
				p.Panic = fmt.Sprint(r)
				p.Results = append(p.Results, "PANIC: "+p.Panic)
				if st := shortStack(); st != "" {
					p.Panic += " @ " + st
				}
				p.InCall = false
				for _, m := range p.w.Monitors {
					m.AfterCall(p.w, p, p.CallIdx, "PANIC: "+p.Panic)
				}
			}
		}
		p.Finished = true
		// a crashed or panicked process drops its descriptors
		for _, f := range p.fds {
			f.closed = true
		}
		p.fds = nil
		if !p.w.Atomic {
			p.w.yieldCh <- p
		}
	}()
	for p.CallIdx = 0; p.CallIdx < len(p.Prog); p.CallIdx++ {
		c := p.Prog[p.CallIdx]
		p.point(Op{Kind: "call", Name: c.Label})
		p.InCall = true
		res := c.Fn(p)
		p.InCall = false
		p.Results = append(p.Results, res)
		p.observe("ret", res)
		for _, m := range p.w.Monitors {
			m.AfterCall(p.w, p, p.CallIdx, res)
		}
	}
}

// ---------------------------------------------------------------- rt.Env

type fileInfo struct {
	name string
	size int64
}

func (f fileInfo) Name() string       { return f.name }
func (f fileInfo) Size() int64        { return f.size }
func (f fileInfo) Mode() os.FileMode  { return 0o644 }
func (f fileInfo) ModTime() time.Time { return time.Unix(1600000000, 0) }
func (f fileInfo) IsDir() bool        { return false }
func (f fileInfo) Sys() interface{}   { return nil }

func pathErr(op, path string, e error) error { return &os.PathError{Op: op, Path: path, Err: e} }

func (w *World) OpenFile(name string, flag int, perm os.FileMode) (rt.File, error) {
	b, berr := w.base(name)
	kind := "open"
	if flag&os.O_CREATE != 0 {
		kind = "create"
		if flag&os.O_EXCL != 0 {
			kind = "createx"
		}
	}
	p := w.enter(Op{Kind: kind, Name: b}, true)
	ev := &Event{Pid: p.ID, Op: Op{Kind: kind, Name: b}}
	if p.takeFault() {
		ev.Err = "EIO"
		w.record(ev)
		return nil, pathErr("open", name, syscall.EIO)
	}
	if berr != nil {
		ev.Err = "ENOENT"
		w.record(ev)
		return nil, berr
	}
	ino := w.names[b]
	ev.OldIno = ino
	wr := flag&(os.O_WRONLY|os.O_RDWR) != 0
	if flag&os.O_CREATE != 0 {
		if ino != nil && flag&os.O_EXCL != 0 {
			ev.Err = "EEXIST"
			w.record(ev)
			return nil, pathErr("open", name, syscall.EEXIST)
		}
		if ino == nil {
			w.nextIno++
			ino = &Inode{ID: w.nextIno, Creator: p.ID}
			w.names[b] = ino
			ev.Mutated = true
			ev.NewIno = ino
		}
	}
	if ino == nil {
		ev.Err = "ENOENT"
		w.record(ev)
		return nil, pathErr("open", name, syscall.ENOENT)
	}
	if flag&os.O_TRUNC != 0 && wr && len(ino.Data) > 0 {
		ino.Data = nil
		ino.hashOK = false
		ev.Mutated = true
	}
	if !wr && ino.Creator >= 0 && ino.Creator != p.ID && (strings.HasSuffix(b, ".reftmp") || strings.HasSuffix(b, ".lock")) {
		// the visibility reduction assumes nobody reads another process's temp or lock files
		// (in atomic mode nothing is interleaved, so there is no reduction to protect)
		if w.HarnessErr == nil && !w.AllVisible && !w.Atomic {
			w.HarnessErr = fmt.Errorf("reduction assumption broken: p%d opens %s (created by p%d) for reading", p.ID, b, ino.Creator)
		}
	}
	f := &fd{w: w, ino: ino, name: name, write: wr, owner: p, appendMode: flag&os.O_APPEND != 0}
	p.fds = append(p.fds, f)
	ev.Result = fmt.Sprintf("ino%d:%x", ino.ID, ino.Hash())
	w.record(ev)
	return f, nil
}

func (w *World) TempFile(dir, pattern string) (rt.File, error) {
	p := w.cur
	if p == nil {
		panic("vfs call outside any process")
	}
	p.tmpCtr++
	sfx := fmt.Sprintf("p%dt%d", p.ID, p.tmpCtr)
	var nm string
	if i := strings.LastIndex(pattern, "*"); i >= 0 {
		nm = pattern[:i] + sfx + pattern[i+1:]
	} else {
		nm = pattern + sfx
	}
	p = w.enter(Op{Kind: "tempfile", Name: nm}, true)
	ev := &Event{Pid: p.ID, Op: Op{Kind: "tempfile", Name: nm}}
	if p.takeFault() {
		ev.Err = "EIO"
		w.record(ev)
		return nil, pathErr("open", filepath.Join(dir, nm), syscall.EIO)
	}
	if filepath.Clean(dir) != filepath.Clean(w.Dir) {
		ev.Err = "ENOENT"
		w.record(ev)
		return nil, pathErr("open", filepath.Join(dir, nm), syscall.ENOENT)
	}
	if w.names[nm] != nil {
		ev.Err = "EEXIST"
		w.record(ev)
		return nil, pathErr("open", filepath.Join(dir, nm), syscall.EEXIST)
	}
	w.nextIno++
	ino := &Inode{ID: w.nextIno, Creator: p.ID}
	w.names[nm] = ino
	ev.Mutated = true
	ev.NewIno = ino
	f := &fd{w: w, ino: ino, name: filepath.Join(dir, nm), write: true, owner: p}
	p.fds = append(p.fds, f)
	ev.Result = nm
	w.record(ev)
	return f, nil
}

func (w *World) Rename(oldpath, newpath string) error {
	a, e1 := w.base(oldpath)
	b, e2 := w.base(newpath)
	p := w.enter(Op{Kind: "rename", Name: a, Name2: b}, true)
	ev := &Event{Pid: p.ID, Op: Op{Kind: "rename", Name: a, Name2: b}}
	if p.takeFault() {
		ev.Err = "EIO"
		w.record(ev)
		return &os.LinkError{Op: "rename", Old: oldpath, New: newpath, Err: syscall.EIO}
	}
	if e1 != nil || e2 != nil || w.names[a] == nil {
		ev.Err = "ENOENT"
		w.record(ev)
		return &os.LinkError{Op: "rename", Old: oldpath, New: newpath, Err: syscall.ENOENT}
	}
	ev.OldIno = w.names[a]
	ev.OldIno2 = w.names[b]
	if a != b {
		w.names[b] = w.names[a]
		delete(w.names, a)
	}
	ev.Mutated = true
	ev.NewIno = w.names[b]
	w.record(ev)
	return nil
}

func (w *World) Link(oldname, newname string) error {
	a, e1 := w.base(oldname)
	b, e2 := w.base(newname)
	p := w.enter(Op{Kind: "link", Name: a, Name2: b}, true)
	ev := &Event{Pid: p.ID, Op: Op{Kind: "link", Name: a, Name2: b}}
	if p.takeFault() {
		ev.Err = "EIO"
		w.record(ev)
		return &os.LinkError{Op: "link", Old: oldname, New: newname, Err: syscall.EIO}
	}
	if e1 != nil || e2 != nil || w.names[a] == nil {
		ev.Err = "ENOENT"
		w.record(ev)
		return &os.LinkError{Op: "link", Old: oldname, New: newname, Err: syscall.ENOENT}
	}
	if w.names[b] != nil {
		ev.Err = "EEXIST"
		w.record(ev)
		return &os.LinkError{Op: "link", Old: oldname, New: newname, Err: syscall.EEXIST}
	}
	w.names[b] = w.names[a]
	ev.Mutated = true
	ev.NewIno = w.names[b]
	w.record(ev)
	return nil
}

func (w *World) Remove(name string) error {
	b, berr := w.base(name)
	p := w.enter(Op{Kind: "remove", Name: b}, true)
	ev := &Event{Pid: p.ID, Op: Op{Kind: "remove", Name: b}}
	if berr != nil || w.names[b] == nil {
		ev.Err = "ENOENT"
		w.record(ev)
		return pathErr("remove", name, syscall.ENOENT)
	}
	ev.OldIno = w.names[b]
	delete(w.names, b)
	ev.Mutated = true
	w.record(ev)
	return nil
}

func (w *World) ReadFile(name string) ([]byte, error) {
	b, berr := w.base(name)
	p := w.enter(Op{Kind: "readfile", Name: b}, true)
	ev := &Event{Pid: p.ID, Op: Op{Kind: "readfile", Name: b}}
	if p.takeFault() {
		ev.Err = "EIO"
		w.record(ev)
		return nil, pathErr("read", name, syscall.EIO)
	}
	ino := w.names[b]
	if berr != nil || ino == nil {
		ev.Err = "ENOENT"
		w.record(ev)
		return nil, pathErr("open", name, syscall.ENOENT)
	}
	ev.OldIno = ino
	ev.Result = fmt.Sprintf("%x", ino.Hash())
	w.record(ev)
	return append([]byte(nil), ino.Data...), nil
}

func (w *World) WriteFile(name string, data []byte, perm os.FileMode) error {
	b, berr := w.base(name)
	p := w.enter(Op{Kind: "writefile", Name: b}, true)
	ev := &Event{Pid: p.ID, Op: Op{Kind: "writefile", Name: b}}
	if p.takeFault() {
		ev.Err = "EIO"
		w.record(ev)
		return pathErr("write", name, syscall.EIO)
	}
	if berr != nil {
		ev.Err = "ENOENT"
		w.record(ev)
		return berr
	}
	ino := w.names[b]
	ev.OldIno = ino
	if ino == nil {
		w.nextIno++
		ino = &Inode{ID: w.nextIno, Creator: p.ID}
		w.names[b] = ino
	}
	ino.Data = append([]byte(nil), data...)
	ino.hashOK = false
	ev.Mutated = true
	ev.NewIno = ino
	ev.Result = fmt.Sprintf("%x", ino.Hash())
	w.record(ev)
	return nil
}

func (w *World) ReadDir(dir string) ([]os.FileInfo, error) {
	p := w.enter(Op{Kind: "readdir"}, true)
	ev := &Event{Pid: p.ID, Op: Op{Kind: "readdir"}}
	if p.takeFault() {
		ev.Err = "EIO"
		w.record(ev)
		return nil, pathErr("readdir", dir, syscall.EIO)
	}
	if filepath.Clean(dir) != filepath.Clean(w.Dir) {
		ev.Err = "ENOENT"
		w.record(ev)
		return nil, pathErr("open", dir, syscall.ENOENT)
	}
	var out []os.FileInfo
	for _, n := range w.Names() {
		out = append(out, fileInfo{n, int64(len(w.names[n].Data))})
	}
	ev.Result = strings.Join(w.Names(), ",")
	w.record(ev)
	return out, nil
}

func (w *World) Stat(name string) (os.FileInfo, error) {
	b, berr := w.base(name)
	p := w.enter(Op{Kind: "stat", Name: b}, true)
	ev := &Event{Pid: p.ID, Op: Op{Kind: "stat", Name: b}}
	if p.takeFault() {
		ev.Err = "EIO"
		w.record(ev)
		return nil, pathErr("stat", name, syscall.EIO)
	}
	if berr == nil && filepath.Clean(name) == filepath.Clean(w.Dir) {
		w.record(ev)
		return fileInfo{b, 0}, nil
	}
	ino := w.names[b]
	if berr != nil || ino == nil {
		ev.Err = "ENOENT"
		w.record(ev)
		return nil, pathErr("stat", name, syscall.ENOENT)
	}
	ev.Result = fmt.Sprint(len(ino.Data))
	w.record(ev)
	return fileInfo{b, int64(len(ino.Data))}, nil
}

// Now: every reading of the clock is later than the previous one (two readings in the same nanosecond are
// not a behaviour worth exploring, and code that derives seeds or names from the clock relies on it).
func (w *World) Now() time.Time {
	w.clock = w.clock.Add(time.Nanosecond)
	return w.clock
}
func (w *World) Sleep(d time.Duration) { w.clock = w.clock.Add(d) }

func (w *World) Rand63() int64 {
	p := w.cur
	if p == nil {
		return 4 << 31
	}
	p.randCtr++
	// a function of (process, its own draw counter) only
	v := int64(p.ID+1)<<24 | int64(p.randCtr)
	return v << 31
}

func (w *World) MapOrder(keys []string) []string {
	if w.MapPerm != nil && len(keys) > 1 {
		return w.MapPerm(keys)
	}
	return keys
}

// ---- descriptor I/O

func (w *World) othersHave(ino *Inode, me *Proc, writeOnly bool) bool {
	for _, q := range w.Procs {
		if q == me {
			continue
		}
		for _, f := range q.fds {
			if f.ino == ino && !f.closed && (!writeOnly || f.write) {
				return true
			}
		}
	}
	return false
}

// privateName reports whether every name of ino is a temp or lock name.
func (w *World) linkedPublicly(ino *Inode) bool {
	for n, i := range w.names {
		if i == ino && !(strings.HasSuffix(n, ".reftmp") || strings.HasSuffix(n, ".lock")) {
			return true
		}
	}
	return false
}

func (f *fd) Name() string { return f.name }

func (f *fd) Write(b []byte) (int, error) {
	w := f.w
	vis := w.linkedPublicly(f.ino) || w.othersHave(f.ino, f.owner, false)
	bn := filepath.Base(f.name)
	p := w.enter(Op{Kind: "write", Name: bn}, vis)
	ev := &Event{Pid: p.ID, Op: Op{Kind: "write", Name: bn}}
	short := false
	if p.takeFault() {
		if !(p.FaultShort && len(b) >= 2 && !f.closed && f.write) {
			ev.Err = "EIO"
			w.record(ev)
			return 0, pathErr("write", f.name, syscall.EIO)
		}
		short = true
		b = b[:len(b)/2]
	}
	if f.closed {
		ev.Err = "closed"
		w.record(ev)
		return 0, pathErr("write", f.name, os.ErrClosed)
	}
	if !f.write {
		ev.Err = "EBADF"
		w.record(ev)
		return 0, pathErr("write", f.name, syscall.EBADF)
	}
	if f.appendMode {
		f.off = int64(len(f.ino.Data))
	}
	end := f.off + int64(len(b))
	if int64(len(f.ino.Data)) < end {
		nd := make([]byte, end)
		copy(nd, f.ino.Data)
		f.ino.Data = nd
	}
	copy(f.ino.Data[f.off:], b)
	f.off = end
	f.ino.hashOK = false
	ev.Mutated = true
	ev.NewIno = f.ino
	ev.Result = fmt.Sprintf("%d", len(b))
	if short {
		ev.Err = "ENOSPC-short"
		w.record(ev)
		return len(b), pathErr("write", f.name, syscall.ENOSPC)
	}
	w.record(ev)
	return len(b), nil
}

func (f *fd) Read(b []byte) (int, error) {
	w := f.w
	bn := filepath.Base(f.name)
	p := w.enter(Op{Kind: "read", Name: bn}, w.othersHave(f.ino, f.owner, true))
	ev := &Event{Pid: p.ID, Op: Op{Kind: "read", Name: bn}}
	if p.takeFault() {
		ev.Err = "EIO"
		w.record(ev)
		return 0, pathErr("read", f.name, syscall.EIO)
	}
	if f.closed {
		ev.Err = "closed"
		w.record(ev)
		return 0, pathErr("read", f.name, os.ErrClosed)
	}
	if f.off >= int64(len(f.ino.Data)) {
		ev.Err = "EOF"
		w.record(ev)
		return 0, io.EOF
	}
	n := copy(b, f.ino.Data[f.off:])
	f.off += int64(n)
	ev.Result = fmt.Sprintf("%d@%x", n, f.ino.Hash())
	w.record(ev)
	return n, nil
}

func (f *fd) ReadAt(b []byte, off int64) (int, error) {
	w := f.w
	bn := filepath.Base(f.name)
	p := w.enter(Op{Kind: "readat", Name: bn}, w.othersHave(f.ino, f.owner, true))
	ev := &Event{Pid: p.ID, Op: Op{Kind: "readat", Name: bn}}
	if p.takeFault() {
		ev.Err = "EIO"
		w.record(ev)
		return 0, pathErr("read", f.name, syscall.EIO)
	}
	if f.closed {
		ev.Err = "closed"
		w.record(ev)
		return 0, pathErr("read", f.name, os.ErrClosed)
	}
	if off >= int64(len(f.ino.Data)) {
		ev.Err = "EOF"
		w.record(ev)
		return 0, io.EOF
	}
	n := copy(b, f.ino.Data[off:])
	ev.Result = fmt.Sprintf("%d@%d@%x", n, off, f.ino.Hash())
	w.record(ev)
	if n < len(b) {
		return n, io.EOF
	}
	return n, nil
}

func (f *fd) Close() error {
	w := f.w
	bn := filepath.Base(f.name)
	// closing never affects another process: invisible
	kind := "close"
	if f.write && !f.closed {
		kind = "closew"
	}
	p := w.enter(Op{Kind: kind, Name: bn}, false)
	ev := &Event{Pid: p.ID, Op: Op{Kind: kind, Name: bn}}
	failed := !f.closed && kind == "closew" && p.takeFault()
	if f.closed {
		ev.Err = "closed"
		w.record(ev)
		return pathErr("close", f.name, os.ErrClosed)
	}
	f.closed = true
	for i, g := range f.owner.fds {
		if g == f {
			f.owner.fds = append(f.owner.fds[:i:i], f.owner.fds[i+1:]...)
			break
		}
	}
	if failed {
		// the descriptor is released, the data written so far stays; only the error is reported
		ev.Err = "EIO"
		w.record(ev)
		return pathErr("close", f.name, syscall.EIO)
	}
	w.record(ev)
	return nil
}

func (f *fd) Stat() (os.FileInfo, error) {
	w := f.w
	bn := filepath.Base(f.name)
	p := w.enter(Op{Kind: "fstat", Name: bn}, w.othersHave(f.ino, f.owner, true))
	ev := &Event{Pid: p.ID, Op: Op{Kind: "fstat", Name: bn}}
	if p.takeFault() {
		ev.Err = "EIO"
		w.record(ev)
		return nil, pathErr("stat", f.name, syscall.EIO)
	}
	if f.closed {
		ev.Err = "closed"
		w.record(ev)
		return nil, pathErr("stat", f.name, os.ErrClosed)
	}
	ev.Result = fmt.Sprint(len(f.ino.Data))
	w.record(ev)
	return fileInfo{bn, int64(len(f.ino.Data))}, nil
}

func (f *fd) Sync() error { return nil }

// setSize cuts or zero-extends the inode.
func (i *Inode) setSize(size int64) {
	nd := make([]byte, size)
	copy(nd, i.Data)
	i.Data = nd
	i.hashOK = false
}

// Truncate (by name) is a write to a file everybody can see: always a scheduling point.
func (w *World) Truncate(name string, size int64) error {
	b, berr := w.base(name)
	p := w.enter(Op{Kind: "truncate", Name: b}, true)
	ev := &Event{Pid: p.ID, Op: Op{Kind: "truncate", Name: b}}
	if p.takeFault() {
		ev.Err = "EIO"
		w.record(ev)
		return pathErr("truncate", name, syscall.EIO)
	}
	ino := w.names[b]
	if berr != nil || ino == nil {
		ev.Err = "ENOENT"
		w.record(ev)
		return pathErr("truncate", name, syscall.ENOENT)
	}
	if size < 0 {
		ev.Err = "EINVAL"
		w.record(ev)
		return pathErr("truncate", name, syscall.EINVAL)
	}
	ino.setSize(size)
	ev.Mutated = true
	ev.NewIno = ino
	ev.Result = fmt.Sprint(size)
	w.record(ev)
	return nil
}

func (f *fd) Truncate(size int64) error {
	w := f.w
	bn := filepath.Base(f.name)
	vis := w.linkedPublicly(f.ino) || w.othersHave(f.ino, f.owner, false)
	p := w.enter(Op{Kind: "truncate", Name: bn}, vis)
	ev := &Event{Pid: p.ID, Op: Op{Kind: "truncate", Name: bn}}
	if p.takeFault() {
		ev.Err = "EIO"
		w.record(ev)
		return pathErr("truncate", f.name, syscall.EIO)
	}
	if f.closed || !f.write || size < 0 {
		ev.Err = "EINVAL"
		w.record(ev)
		return pathErr("truncate", f.name, syscall.EINVAL)
	}
	f.ino.setSize(size)
	ev.Mutated = true
	ev.NewIno = f.ino
	ev.Result = fmt.Sprint(size)
	w.record(ev)
	return nil
}

// Seek moves the descriptor's own offset: local to the process, not a filesystem call of interest.
func (f *fd) Seek(offset int64, whence int) (int64, error) {
	if f.closed {
		return 0, pathErr("seek", f.name, os.ErrClosed)
	}
	switch whence {
	case io.SeekStart:
	case io.SeekCurrent:
		offset += f.off
	case io.SeekEnd:
		offset += int64(len(f.ino.Data))
	default:
		return 0, pathErr("seek", f.name, syscall.EINVAL)
	}
	if offset < 0 {
		return 0, pathErr("seek", f.name, syscall.EINVAL)
	}
	f.off = offset
	return offset, nil
}

func (f *fd) WriteAt(b []byte, off int64) (int, error) {
	if f.appendMode {
		return 0, pathErr("writeat", f.name, errors.New("invalid use of WriteAt on file opened with O_APPEND"))
	}
	saved := f.off
	f.off = off
	n, err := f.Write(b)
	f.off = saved
	return n, err
}

var _ rt.Env = (*World)(nil)
var _ = errors.New

// RunAtomic runs fn as a single process without scheduling (sequential harnesses,
// set-up code, monitors running the real code on a clone).
func (w *World) RunAtomic(fn func() error) error {
	return w.As(0, fn)
}

// As runs fn as process pid in atomic mode; processes are created on demand.
func (w *World) As(pid int, fn func() error) (err error) {
	for len(w.Procs) <= pid {
		w.AddProc(nil)
	}
	oldA, oldC := w.Atomic, w.cur
	w.Atomic = true
	w.cur = w.Procs[pid]
	defer func() {
		w.Atomic, w.cur = oldA, oldC
		if r := recover(); r != nil {
			if _, ok := r.(killSentinel); ok {
				err = ErrCrashed
				return
			}
			panic(r)
		}
	}()
	return fn()
}

// ErrCrashed is returned by As when the process hit its CrashAt point.
var ErrCrashed = errors.New("process crashed (injected)")

// Proc returns process pid, creating processes as needed.
func (w *World) Proc(pid int) *Proc {
	for len(w.Procs) <= pid {
		w.AddProc(nil)
	}
	return w.Procs[pid]
}

// DropFDs closes all descriptors of a process (what a crash does).
func (p *Proc) DropFDs() {
	for _, f := range p.fds {
		f.closed = true
	}
	p.fds = nil
}

// Revive makes a crashed process usable again as a *new* process with the same id
// (sequential crash harnesses reuse ids for readability).
func (p *Proc) Revive() {
	p.killed = false
	p.Crashed = false
	p.CrashAt = 0
	p.OpCount = 0
}

func (p *Proc) Obs() uint64 { return p.obs }

// Unlink removes a name directly (an operator's action between runs; not attributed to any process).
func (w *World) Unlink(name string) { delete(w.names, name) }

// Yield is a scheduling point announced by the harness itself (e.g. a BlockSource
// wrapper): the current process may be preempted here.
func (w *World) Yield(kind, name string) {
	p := w.cur
	if p == nil || w.Atomic {
		return
	}
	p.OpCount++
	p.point(Op{Kind: kind, Name: name})
	p.observe(kind, name)
}

// WaitUntil is a scheduling point at which the calling process is runnable only while ready()
// holds: the blocking half of the sync shim (Mutex.Lock, WaitGroup.Wait, …). Waiting is visible to
// the explorer: a process parked here is not an alternative, and when every unfinished process is
// parked the execution is a deadlock. In atomic mode (sequential harnesses, set-up code) nobody else
// can make ready() true, so a false ready() is a self-deadlock and panics.
func (w *World) WaitUntil(kind string, ready func() bool) {
	p := w.cur
	if p == nil || w.Atomic {
		if !ready() {
			panic("sync: " + kind + " would block forever (no other goroutine can run)")
		}
		return
	}
	p.OpCount++
	p.waitReady = ready
	p.point(Op{Kind: kind})
	p.waitReady = nil
	p.observe(kind)
	if w.OnSync != nil {
		w.OnSync(p, kind)
	}
}

// Note records a non-blocking synchronisation operation (Unlock, Done, …) in the process's
// observation history. Releases of a lock are followed by a scheduling point.
func (w *World) Note(kind string) {
	if p := w.cur; p != nil {
		p.observe(kind)
		if w.OnSync != nil && !w.Atomic {
			w.OnSync(p, kind)
		}
		// A release is a scheduling point too: code that goes on using shared data AFTER giving up the lock
		// (a critical section that is too narrow) misbehaves only if another goroutine gets in right here.
		if !w.Atomic && strings.HasSuffix(kind, "unlock") {
			p.OpCount++
			p.point(Op{Kind: kind + "-done"})
		}
	}
}

// Runnable reports whether the process can take a step.
func (p *Proc) Runnable() bool {
	return !p.Finished && (p.waitReady == nil || p.waitReady())
}

// Current returns the running process (nil outside any).
func (w *World) Current() *Proc { return w.cur }
