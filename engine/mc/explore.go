package mc

import (
	"fmt"
	"hash/fnv"
	"runtime"
	"sort"
	"strings"

	"github.com/google/reftable/zz_verif/rt"
)

func shortStack() string {
	pcs := make([]uintptr, 64)
	n := runtime.Callers(3, pcs)
	fr := runtime.CallersFrames(pcs[:n])
	var out []string
	for {
		f, more := fr.Next()
		if strings.Contains(f.Function, "github.com/google/reftable.") {
			fn := f.Function[strings.LastIndex(f.Function, "/")+1:]
			out = append(out, fn)
			if len(out) >= 3 {
				break
			}
		}
		if !more {
			break
		}
	}
	return strings.Join(out, "<")
}

// Alt is one alternative at a choice point.
type Alt struct {
	Crash bool
	Fault bool // the process's pending filesystem call fails with EIO
	Pid   int
}

func (a Alt) String() string {
	if a.Crash {
		return fmt.Sprintf("crash%d", a.Pid)
	}
	if a.Fault {
		return fmt.Sprintf("fault%d", a.Pid)
	}
	return fmt.Sprintf("p%d", a.Pid)
}

type point struct {
	alts        []Alt
	key         uint64
	preBefore   int
	crashBefore int
	faultBefore int
	curEnabled  bool
}

// Result of one execution.
type Exec struct {
	W        *World
	points   []point
	Choices  []int
	Cut      bool // entered an already expanded state
	Horizon  bool
	Complete bool // every process finished or crashed, monitors' AtEnd ran
	Schedule []string
}

// Scenario is a closed system: a builder for a fresh world plus bounds.
type Scenario struct {
	Name string
	// Build returns a fresh world with processes and monitors installed.
	Build func() *World
	// MaxPreempt < 0 means unbounded.
	MaxPreempt int
	// MaxCrashes is the number of crash-as-choice deviations allowed (0 or 1).
	MaxCrashes int
	// MaxFaults is the number of injected I/O faults allowed per execution (deviation bound).
	MaxFaults int
	Horizon   int
	// GlobalsHash folds package-level state of the code under test into the key.
	GlobalsHash func() uint64
	// DeadlockProp is the property a deadlock (every unfinished process blocked in the sync shim) is
	// reported under.
	DeadlockProp string
}

type Stats struct {
	Executions   int
	States       int
	Transitions  int
	MaxDepth     int
	Cuts         int
	HorizonHits  int
	Completed    int
	Outcomes     map[string]int
	Violations   []FoundViolation
	HarnessErr   string
	DetChecked   int
	CapHit       bool
	BoundReached int
	// FaultsSeen: the largest number of injected faults actually consumed in one execution
	FaultsSeen int
	// OpsSeen: the largest number of filesystem calls process 0 made in one execution
	OpsSeen int
}

type FoundViolation struct {
	Violation
	Scenario string
	Choices  []int
	Schedule []string
	Trace    []string
	Count    int
}

type Explorer struct {
	Sc      *Scenario
	visited map[uint64]int8 // key -> max remaining preemption budget seen (+1), or 127 for unbounded
	St      Stats
	// StopAtFirst ends exploration after the first violation of a new signature.
	MaxExec int
	// DetCheck: number of executions to run twice for the determinism self-test.
	DetCheck int
	// KeepGoing: continue after violations (dedup by signature)
	sigs map[string]int
	// OnExec is called for each complete (not cut) execution.
	OnExec func(x *Exec)
	// FatalSig: signatures that end the search (nil: none)
	Deadline func() bool
}

func NewExplorer(sc *Scenario) *Explorer {
	if sc.Horizon == 0 {
		sc.Horizon = 600
	}
	return &Explorer{Sc: sc, visited: map[uint64]int8{}, sigs: map[string]int{}, St: Stats{Outcomes: map[string]int{}}}
}

func stateKey(w *World, sc *Scenario, cur int, bounded bool) uint64 {
	h := fnv.New64a()
	if sc.MaxFaults > 0 || sc.MaxCrashes > 0 {
		// remaining deviation budgets are part of the state
		nf, nc := 0, 0
		for _, p := range w.Procs {
			nf += p.Faults
			if p.Crashed {
				nc++
			}
		}
		fmt.Fprintf(h, "F%dC%d|", nf, nc)
	}
	w.DirKey(h)
	for _, p := range w.Procs {
		fmt.Fprintf(h, "P%d|%v|%v|%d|%x|%s|", p.ID, p.Finished, p.Crashed, p.CallIdx, p.obs, p.pending)
		for _, f := range p.fds {
			fmt.Fprintf(h, "fd%d:%x:%d:%v|", f.ino.ID, f.ino.Hash(), f.off, f.write)
		}
	}
	for _, m := range w.Monitors {
		m.Key(h)
		h.Write([]byte{0xfe})
	}
	if sc.GlobalsHash != nil {
		fmt.Fprintf(h, "G%x", sc.GlobalsHash())
	}
	if bounded {
		fmt.Fprintf(h, "cur%d", cur)
	}
	return h.Sum64()
}

// run executes one schedule: replays prefix, then default choices. If useCache,
// the execution is cut when it enters an expanded state after the prefix.
func (e *Explorer) run(prefix []int, useCache bool, keepTrace bool) (*Exec, error) {
	sc := e.Sc
	w := sc.Build()
	w.KeepTrace = keepTrace
	rt.E = w
	x := &Exec{W: w}
	for _, p := range w.Procs {
		w.cur = p
		go p.run()
		<-w.yieldCh
	}
	cur := -1
	pre, crashes, faults := 0, 0, 0
	bounded := sc.MaxPreempt >= 0
	defer func() {
		// unwind whatever is left
		for _, p := range w.Procs {
			if !p.Finished {
				p.killed = true
				w.cur = p
				p.resume <- struct{}{}
				<-w.yieldCh
			}
		}
		rt.E = nil
	}()
	for step := 0; ; step++ {
		var alts []Alt
		curEnabled := cur >= 0 && w.Procs[cur].Runnable()
		if curEnabled {
			alts = append(alts, Alt{Pid: cur})
		}
		unfinished := 0
		for _, p := range w.Procs {
			if !p.Finished {
				unfinished++
			}
			if p.Runnable() && p.ID != cur {
				alts = append(alts, Alt{Pid: p.ID})
			}
		}
		if len(alts) == 0 {
			if unfinished > 0 {
				// every unfinished process is parked at a blocking operation
				var who []string
				for _, p := range w.Procs {
					if !p.Finished {
						who = append(who, fmt.Sprintf("p%d at %s", p.ID, p.pending.Kind))
					}
				}
				w.Violate(sc.DeadlockProp, "deadlock:all-goroutines-blocked", "no process can run: "+strings.Join(who, ", "))
				return x, nil
			}
			break
		}
		if crashes < sc.MaxCrashes {
			for _, p := range w.Procs {
				if !p.Finished && p.InCall {
					alts = append(alts, Alt{Crash: true, Pid: p.ID})
				}
			}
		}
		if faults < sc.MaxFaults {
			for _, p := range w.Procs {
				if !p.Finished && p.InCall && Faultable(p.pending.Kind) {
					alts = append(alts, Alt{Fault: true, Pid: p.ID})
				}
			}
		}
		choice := 0
		if len(alts) > 1 {
			pi := len(x.points)
			pt := point{alts: alts, preBefore: pre, crashBefore: crashes, faultBefore: faults, curEnabled: curEnabled}
			if pi < len(prefix) {
				choice = prefix[pi]
				if choice < 0 || choice >= len(alts) {
					return x, fmt.Errorf("replay divergence at point %d: choice %d of %d alternatives", pi, choice, len(alts))
				}
			} else {
				if useCache {
					pt.key = stateKey(w, sc, cur, bounded)
					rem := int8(127)
					if bounded {
						rem = int8(sc.MaxPreempt - pre + 1)
					}
					if old, ok := e.visited[pt.key]; ok && old >= rem {
						x.Cut = true
						e.St.Cuts++
						return x, nil
					}
					if _, ok := e.visited[pt.key]; !ok {
						e.St.States++
					}
					e.visited[pt.key] = rem
				}
			}
			x.points = append(x.points, pt)
			x.Choices = append(x.Choices, choice)
		}
		a := alts[choice]
		if curEnabled && choice != 0 && !a.Crash && !(a.Fault && a.Pid == cur) {
			pre++
		}
		x.Schedule = append(x.Schedule, a.String())
		p := w.Procs[a.Pid]
		if a.Crash {
			crashes++
			p.killed = true
			p.Crashed = true
		} else {
			if a.Fault {
				faults++
				p.faultNext = true
			}
			cur = a.Pid
		}
		w.cur = p
		e.St.Transitions++
		p.resume <- struct{}{}
		<-w.yieldCh
		if w.HarnessErr != nil {
			return x, w.HarnessErr
		}
		if len(w.Violations) > 0 {
			return x, nil
		}
		if step >= sc.Horizon {
			x.Horizon = true
			e.St.HorizonHits++
			return x, nil
		}
	}
	w.cur = nil
	for _, m := range w.Monitors {
		m.AtEnd(w)
	}
	x.Complete = true
	return x, nil
}

func (x *Exec) outcome() string {
	var sb strings.Builder
	for _, p := range x.W.Procs {
		fmt.Fprintf(&sb, "p%d:%s;", p.ID, strings.Join(p.Results, ","))
		if p.Crashed {
			sb.WriteString("crashed;")
		}
	}
	// directory listing with names normalised (random suffixes are deterministic per process)
	sb.WriteString(strings.Join(x.W.Names(), ","))
	if i := x.W.Lookup("tables.list"); i != nil {
		sb.WriteString("|" + string(i.Data))
	}
	return sb.String()
}

func traceStrings(w *World) []string {
	out := make([]string, len(w.Trace))
	for i, e := range w.Trace {
		out[i] = e.String()
	}
	return out
}

// Replay runs exactly one schedule with tracing and returns the execution.
func (e *Explorer) Replay(choices []int) (*Exec, error) {
	return e.run(choices, false, true)
}

func (e *Explorer) handle(x *Exec) {
	e.St.Executions++
	nf := 0
	for _, p := range x.W.Procs {
		nf += p.Faults
	}
	if nf > e.St.FaultsSeen {
		e.St.FaultsSeen = nf
	}
	if len(x.W.Procs) > 0 && x.W.Procs[0].OpCount > e.St.OpsSeen {
		e.St.OpsSeen = x.W.Procs[0].OpCount
	}
	if len(x.points) > e.St.MaxDepth {
		e.St.MaxDepth = len(x.points)
	}
	if x.Complete {
		e.St.Completed++
		e.St.Outcomes[x.outcome()]++
		if e.OnExec != nil {
			e.OnExec(x)
		}
	}
	for _, v := range x.W.Violations {
		key := v.Property + "|" + v.Signature
		if n, ok := e.sigs[key]; ok {
			e.St.Violations[n].Count++
			continue
		}
		// confirm: the same schedule must fail identically 5 times
		fv := FoundViolation{Violation: v, Scenario: e.Sc.Name, Choices: append([]int(nil), x.Choices...), Count: 1}
		okAll := true
		for i := 0; i < 5; i++ {
			y, err := e.Replay(x.Choices)
			if err != nil {
				e.St.HarnessErr = "replay of violating schedule failed: " + err.Error()
				okAll = false
				break
			}
			found := false
			for _, v2 := range y.W.Violations {
				if v2.Property == v.Property && v2.Signature == v.Signature {
					found = true
				}
			}
			if !found {
				e.St.HarnessErr = fmt.Sprintf("violation %s did not recur on replay %d of schedule %v", key, i, x.Choices)
				okAll = false
				break
			}
			fv.Schedule = y.Schedule
			fv.Trace = traceStrings(y.W)
		}
		if !okAll {
			continue
		}
		e.sigs[key] = len(e.St.Violations)
		e.St.Violations = append(e.St.Violations, fv)
	}
}

// Explore runs the deviation-bounded DFS to completion (or MaxExec / Deadline).
func (e *Explorer) Explore() {
	sc := e.Sc
	type item struct{ prefix []int }
	stack := []item{{nil}}
	for len(stack) > 0 {
		if e.St.HarnessErr != "" {
			return
		}
		if (e.MaxExec > 0 && e.St.Executions >= e.MaxExec) || (e.Deadline != nil && e.St.Executions%64 == 0 && e.Deadline()) {
			e.St.CapHit = true
			return
		}
		it := stack[len(stack)-1]
		stack = stack[:len(stack)-1]
		x, err := e.run(it.prefix, true, false)
		if err != nil {
			e.St.HarnessErr = err.Error()
			return
		}
		// determinism self-test
		if e.St.DetChecked < e.DetCheck && !x.Cut {
			y, err := e.run(x.Choices, false, false)
			if err != nil {
				e.St.HarnessErr = "determinism self-test: " + err.Error()
				return
			}
			if strings.Join(x.Schedule, " ") != strings.Join(y.Schedule, " ") || fmt.Sprint(procObs(x.W)) != fmt.Sprint(procObs(y.W)) || len(x.W.Violations) != len(y.W.Violations) {
				e.St.HarnessErr = fmt.Sprintf("determinism self-test failed for schedule %v", x.Choices)
				return
			}
			e.St.Transitions -= len(y.Schedule)
			e.St.DetChecked++
		}
		e.handle(x)
		// expand alternatives (deepest first so that DFS order is kept)
		for i := len(it.prefix); i < len(x.points); i++ {
			p := x.points[i]
			for alt := 1; alt < len(p.alts); alt++ {
				a := p.alts[alt]
				if a.Crash {
					if p.crashBefore >= sc.MaxCrashes {
						continue
					}
				} else if a.Fault {
					if p.faultBefore >= sc.MaxFaults {
						continue
					}
					if p.curEnabled && a.Pid != p.alts[0].Pid && sc.MaxPreempt >= 0 && p.preBefore+1 > sc.MaxPreempt {
						continue
					}
				} else if p.curEnabled && sc.MaxPreempt >= 0 && p.preBefore+1 > sc.MaxPreempt {
					continue
				}
				np := make([]int, i+1)
				copy(np, x.Choices[:i])
				np[i] = alt
				stack = append(stack, item{np})
			}
		}
	}
}

func procObs(w *World) []uint64 {
	var o []uint64
	for _, p := range w.Procs {
		o = append(o, p.obs)
	}
	return o
}

// SortedOutcomes returns the distinct outcomes in a stable order.
func (s *Stats) SortedOutcomes() []string {
	var ks []string
	for k := range s.Outcomes {
		ks = append(ks, k)
	}
	sort.Strings(ks)
	return ks
}
