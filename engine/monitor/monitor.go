// Package monitor holds the oracles of engine E1. They observe the directory
// through the independent decoder (model/fmtspec), never through the code under
// test, except where a property is stated in terms of the real API ("opening the
// directory succeeds"), in which case the real code runs on a clone.
package monitor

import (
	"fmt"
	"io"
	"runtime"
	"sort"
	"strings"

	"github.com/google/reftable"
	"github.com/google/reftable/zz_verif/rt"

	"verif/engine/mc"
	"verif/internal/hx"
	"verif/model/fmtspec"
	"verif/model/refdb"
)

// caller returns the innermost reftable functions on the current goroutine's stack.
func caller() string {
	pcs := make([]uintptr, 64)
	n := runtime.Callers(2, pcs)
	fr := runtime.CallersFrames(pcs[:n])
	for {
		f, more := fr.Next()
		if strings.Contains(f.Function, "github.com/google/reftable.") && !strings.Contains(f.Function, "zz_verif") {
			return f.Function[strings.LastIndex(f.Function, "/")+1+len("reftable."):]
		}
		if !more {
			break
		}
	}
	return "?"
}

// pathClass maps a file name to its class for signatures.
func PathClass(n string) string {
	switch {
	case n == "tables.list":
		return "tables.list"
	case n == "tables.list.lock":
		return "tables.list.lock"
	case strings.HasSuffix(n, ".ref.lock"):
		return "table.lock"
	case strings.HasSuffix(n, ".lock"):
		return "other.lock"
	case strings.HasSuffix(n, ".reftmp"):
		return "reftmp"
	case strings.HasSuffix(n, ".ref"):
		return "table"
	}
	return "other"
}

// ---------------------------------------------------------------- decoded views

type tabMemo struct {
	t   *fmtspec.Table
	err error
}

var tables = map[string]tabMemo{}

func decode(ino *mc.Inode) (*fmtspec.Table, error) {
	k := fmt.Sprintf("%x/%d", ino.Hash(), len(ino.Data))
	if m, ok := tables[k]; ok {
		return m.t, m.err
	}
	t, err := fmtspec.Decode(ino.Data)
	tables[k] = tabMemo{t, err}
	return t, err
}

// ListNames parses the content of tables.list.
func ListNames(w *mc.World) []string {
	ino := w.Lookup("tables.list")
	if ino == nil {
		return nil
	}
	var out []string
	for _, l := range strings.Split(string(ino.Data), "\n") {
		if l != "" {
			out = append(out, l)
		}
	}
	return out
}

type viewMemo struct {
	canon string
	err   error
}

var views = map[string]viewMemo{}

// ListView returns the canonical text of the committed database as a reader
// must see it (newest wins, tombstones dropped), or the reason it is broken.
func ListView(w *mc.World, hashSize int) (string, error) {
	names := ListNames(w)
	var key strings.Builder
	var inos []*mc.Inode
	for _, n := range names {
		ino := w.Lookup(n)
		if ino == nil {
			return "", fmt.Errorf("listed table %s does not exist", n)
		}
		fmt.Fprintf(&key, "%x/%d,", ino.Hash(), len(ino.Data))
		inos = append(inos, ino)
	}
	if m, ok := views[key.String()]; ok {
		return m.canon, m.err
	}
	var tabs []*fmtspec.Table
	var err error
	for i, ino := range inos {
		t, e := decode(ino)
		if e != nil {
			err = fmt.Errorf("listed table %s: %v", names[i], e)
			break
		}
		tabs = append(tabs, t)
	}
	m := viewMemo{err: err}
	if err == nil {
		m.canon = refdb.Overlay(tabs).DropTombstones().CanonString(hashSize)
	}
	views[key.String()] = m
	return m.canon, m.err
}

// ---------------------------------------------------------------- real code on a clone

// OnClone runs fn against a copy of the directory, in atomic mode, with the
// real (rewritten) code. The calling execution is not disturbed.
func OnClone(w *mc.World, fn func(dir string) error) (err error) {
	w2 := mc.NewWorld(w.Dir)
	w2.Restore(w.Snapshot())
	w2.Atomic = true
	old := rt.E
	rt.E = w2
	defer func() {
		rt.E = old
		if r := recover(); r != nil {
			err = fmt.Errorf("panic: %v", r)
		}
	}()
	return w2.RunAtomic(func() error { return fn(w.Dir) })
}

// FreshView opens the directory with the real NewStack on a clone and returns the full scan.
func FreshView(w *mc.World, cfg reftable.Config) (string, error) {
	var out string
	err := OnClone(w, func(dir string) error {
		st, err := reftable.NewStack(dir, cfg)
		if err != nil {
			return fmt.Errorf("NewStack: %v", err)
		}
		defer st.Close()
		hs := 20
		if cfg.HashID == reftable.SHA256ID {
			hs = 32
		}
		refs, logs, err := hx.ReadAll(st.Merged(), hs)
		if err != nil {
			return err
		}
		out = hx.Joined(refs, logs)
		return nil
	})
	return out, err
}

// ---------------------------------------------------------------- C08 lock monitor

type Lock struct {
	Prop string
}

func (m *Lock) AfterOp(w *mc.World, ev *mc.Event) {
	if !ev.Mutated {
		return
	}
	switch ev.Op.Kind {
	case "remove", "rename":
		if strings.HasSuffix(ev.Op.Name, ".lock") && ev.OldIno != nil && ev.OldIno.Creator != ev.Pid {
			w.Violate(m.Prop, fmt.Sprintf("lock:foreign-%s@%s:%s", ev.Op.Kind, caller(), PathClass(ev.Op.Name)),
				fmt.Sprintf("p%d performs %s on a lock file created by p%d", ev.Pid, ev.Op, ev.OldIno.Creator))
		}
		if ev.Op.Kind == "rename" && strings.HasSuffix(ev.Op.Name2, ".lock") && ev.OldIno2 != nil && ev.OldIno2.Creator != ev.Pid {
			w.Violate(m.Prop, fmt.Sprintf("lock:foreign-overwrite@%s:%s", caller(), PathClass(ev.Op.Name2)),
				fmt.Sprintf("p%d renames over a lock file created by p%d: %s", ev.Pid, ev.OldIno2.Creator, ev.Op))
		}
	case "create", "writefile":
		// creating a lock without O_EXCL over an existing one is a broken test-and-set
		if strings.HasSuffix(ev.Op.Name, ".lock") && ev.OldIno != nil && ev.OldIno.Creator != ev.Pid {
			w.Violate(m.Prop, fmt.Sprintf("lock:non-exclusive-create@%s:%s", caller(), PathClass(ev.Op.Name)),
				fmt.Sprintf("p%d opens an existing lock file of p%d for writing without O_EXCL", ev.Pid, ev.OldIno.Creator))
		}
	}
	// commit through a lock file the committer does not own
	if ev.Op.Kind == "rename" && ev.Op.Name2 == "tables.list" && ev.OldIno != nil && ev.OldIno.Creator != ev.Pid {
		w.Violate(m.Prop, fmt.Sprintf("lock:commit-of-foreign-file@%s", caller()),
			fmt.Sprintf("p%d renames a file created by p%d onto tables.list", ev.Pid, ev.OldIno.Creator))
	}
}
func (m *Lock) AfterCall(w *mc.World, p *mc.Proc, call int, res string) {}
func (m *Lock) AtEnd(w *mc.World)                                       {}
func (m *Lock) Key(h io.Writer)                                         {}

// ---------------------------------------------------------------- C16 residue monitor

type Residue struct {
	Prop string
	// Holding reports whether process p legitimately holds the list lock after this call
	// (an open Addition).
	Holding func(p *mc.Proc) bool
	// Stale names files that were already unlisted leftovers when the scenario started.
	Stale map[string]bool
}

func (m *Residue) AfterOp(w *mc.World, ev *mc.Event) {
	// Close and Clean remove only stale files, never a listed table
	if !ev.Mutated || ev.Op.Kind != "remove" {
		return
	}
	p := w.Procs[ev.Pid]
	if !p.InCall || p.CallIdx >= len(p.Prog) {
		return
	}
	k := callKind(p.Prog[p.CallIdx].Label)
	if k != "close" && k != "clean" {
		return
	}
	for _, n := range ListNames(w) {
		if n == ev.Op.Name {
			w.Violate(m.Prop, "residue:gc-unlinks-listed-table@"+k, fmt.Sprintf("p%d: %s removed %s, which tables.list still names", ev.Pid, k, n))
		}
	}
}
func (m *Residue) AfterCall(w *mc.World, p *mc.Proc, call int, res string) {
	if call < len(p.Prog) && strings.HasPrefix(res, "PANIC") {
		if k := callKind(p.Prog[call].Label); k == "clean" || k == "close" {
			w.Violate(m.Prop, "residue:gc-call-panics@"+k, fmt.Sprintf("p%d: %s panicked: %s", p.ID, k, res))
			return
		}
	}
	if m.Holding != nil && m.Holding(p) {
		return
	}
	if p.Crashed {
		return
	}
	for _, n := range w.Names() {
		ino := w.Lookup(n)
		if ino.Creator != p.ID {
			continue
		}
		c := PathClass(n)
		if c == "tables.list.lock" || c == "table.lock" || c == "other.lock" || c == "reftmp" {
			lbl := "?"
			if call < len(p.Prog) {
				lbl = p.Prog[call].Label
			}
			if strings.HasPrefix(res, "PANIC") {
				lbl += "/panic"
			}
			w.Violate(m.Prop, fmt.Sprintf("residue:%s-left-by-idle-handle@%s", c, callKind(lbl)),
				fmt.Sprintf("p%d is idle after %s (%s) but still owns %s", p.ID, lbl, res, n))
		}
	}
}

func callKind(lbl string) string {
	if i := strings.IndexAny(lbl, "(: "); i >= 0 {
		return lbl[:i]
	}
	return lbl
}

func (m *Residue) AtEnd(w *mc.World) {
	for _, p := range w.Procs {
		if p.Crashed {
			return
		}
	}
	listed := map[string]bool{}
	for _, n := range ListNames(w) {
		listed[n] = true
	}
	// "the directory contains exactly tables.list and the tables it names": nothing missing …
	for _, n := range ListNames(w) {
		if w.Lookup(n) == nil {
			w.Violate(m.Prop, "residue:listed-table-missing-at-quiescence",
				fmt.Sprintf("all handles idle, no crash, but %s, which tables.list names, is not in the directory; list=%v dir=%v", n, ListNames(w), w.Names()))
		}
	}
	// … and nothing extra
	for _, n := range w.Names() {
		if n == "tables.list" || listed[n] {
			continue
		}
		if m.Stale[n] && w.Lookup(n).Creator < 0 {
			continue // a leftover older than the scenario; nobody is obliged to remove it
		}
		w.Violate(m.Prop, fmt.Sprintf("residue:%s-at-quiescence", PathClass(n)),
			fmt.Sprintf("all handles idle, no crash, but the directory still holds %s (created by p%d); list=%v", n, w.Lookup(n).Creator, ListNames(w)))
	}
}
func (m *Residue) Key(h io.Writer) {}

// ---------------------------------------------------------------- C05 list integrity

type ListIntegrity struct {
	Prop     string
	HashID   string // "sha1" or "s256": the stack's hash type
	Cfg      reftable.Config
	lastKey  string
	okStates map[string]bool
	// CheckOpen: run the real NewStack on a clone for every distinct (list, tables) state
	CheckOpen bool
}

func (m *ListIntegrity) stateKey(w *mc.World) string {
	var sb strings.Builder
	if l := w.Lookup("tables.list"); l != nil {
		fmt.Fprintf(&sb, "L%x:", l.Hash())
	}
	for _, n := range ListNames(w) {
		if i := w.Lookup(n); i != nil {
			fmt.Fprintf(&sb, "%s=%x/%d,", n, i.Hash(), len(i.Data))
		} else {
			fmt.Fprintf(&sb, "%s=MISSING,", n)
		}
	}
	return sb.String()
}

func (m *ListIntegrity) AfterOp(w *mc.World, ev *mc.Event) {
	if !ev.Mutated {
		return
	}
	k := m.stateKey(w)
	if k == m.lastKey {
		return
	}
	m.lastKey = k
	if m.okStates == nil {
		m.okStates = okStatesGlobal
	}
	if m.okStates[k] {
		return
	}
	where := fmt.Sprintf("%s@%s:%s(%s)", "%s", caller(), ev.Op.Kind, PathClass(firstNonEmpty(ev.Op.Name2, ev.Op.Name)))
	names := ListNames(w)
	var prevMax uint64
	for i, n := range names {
		ino := w.Lookup(n)
		if ino == nil {
			w.Violate(m.Prop, fmt.Sprintf(where, "list:names-missing-table"),
				fmt.Sprintf("after %s by p%d tables.list names %s, which does not exist; list=%v dir=%v", ev.Op, ev.Pid, n, names, w.Names()))
			return
		}
		t, err := decode(ino)
		if err != nil {
			w.Violate(m.Prop, fmt.Sprintf(where, "list:names-malformed-table"),
				fmt.Sprintf("after %s by p%d listed table %s is not a complete valid table: %v", ev.Op, ev.Pid, n, err))
			return
		}
		if m.HashID == "" {
			// an empty directory has no hash type yet: the first committed table decides it
			m.HashID = t.HashID
		}
		if t.HashID != m.HashID {
			w.Violate(m.Prop, fmt.Sprintf(where, "list:wrong-hash-type"),
				fmt.Sprintf("after %s by p%d listed table %s has hash id %s, stack is %s", ev.Op, ev.Pid, n, t.HashID, m.HashID))
			return
		}
		if i > 0 && t.Min <= prevMax {
			w.Violate(m.Prop, fmt.Sprintf(where, "list:ranges-not-increasing"),
				fmt.Sprintf("after %s by p%d table %s has min %d <= previous max %d; list=%v", ev.Op, ev.Pid, n, t.Min, prevMax, names))
			return
		}
		prevMax = t.Max
	}
	if m.CheckOpen {
		cfg := m.Cfg
		switch m.HashID {
		case "s256":
			cfg.HashID = reftable.SHA256ID
		case "sha1":
			cfg.HashID = reftable.SHA1ID
		}
		err := OnClone(w, func(dir string) error {
			st, err := reftable.NewStack(dir, cfg)
			if err != nil {
				return err
			}
			st.Close()
			return nil
		})
		if err != nil {
			w.Violate(m.Prop, fmt.Sprintf(where, "list:open-fails"),
				fmt.Sprintf("after %s by p%d opening the directory fails: %v; list=%v dir=%v", ev.Op, ev.Pid, err, names, w.Names()))
			return
		}
	}
	m.okStates[k] = true
}

var okStatesGlobal = map[string]bool{}

func firstNonEmpty(a, b string) string {
	if a != "" {
		return a
	}
	return b
}

func (m *ListIntegrity) AfterCall(w *mc.World, p *mc.Proc, call int, res string) {}
func (m *ListIntegrity) AtEnd(w *mc.World)                                       {}
func (m *ListIntegrity) Key(h io.Writer)                                         { fmt.Fprintf(h, "hash=%s", m.HashID) }

// ---------------------------------------------------------------- C04 refinement monitor

// Pending is a transaction in flight.
type Pending struct {
	Pid   int
	Txn   hx.Txn
	UI    uint64
	After string // canonical view after applying it to the state it was prepared against
	// Committed is set by the monitor when the commit transition is observed.
	Committed bool
	Tables    int // number of tables the Addition wrote (multi-table additions commit together)
}

type Refinement struct {
	Prop     string
	HashSize int
	Exact    bool
	Cfg      reftable.Config
	M        *refdb.DB // committed reference database (live + tombstone-free)
	mCanon   string
	listHash string
	pending  map[int][]*Pending // per pid: transactions written by the open Addition
	// expiry in flight per pid
	expiry    map[int][3]uint64
	Commits   int
	Stutters  int
	committed []string
	// Relaxed: the scenario injects I/O faults, so what a call returns is not judged (C04 states its
	// acknowledgement rule 'in the absence of I/O faults'); transitions and the final view still are.
	Relaxed bool
}

func NewRefinement(prop string, cfg reftable.Config, initial *refdb.DB) *Refinement {
	hs := 20
	if cfg.HashID == reftable.SHA256ID {
		hs = 32
	}
	m := &Refinement{Prop: prop, HashSize: hs, Cfg: cfg, M: initial, pending: map[int][]*Pending{}, expiry: map[int][3]uint64{}, Exact: cfg.ExactLogMessage}
	m.mCanon = m.M.CanonString(hs)
	return m
}

func listHash(w *mc.World) string {
	l := w.Lookup("tables.list")
	if l == nil {
		return "absent"
	}
	return fmt.Sprintf("%x/%d", l.Hash(), len(l.Data))
}

// Begin registers a transaction the process is writing (called from the Add callback, when its update index is known).
func (m *Refinement) Begin(pid int, t hx.Txn, ui uint64) *Pending {
	p := &Pending{Pid: pid, Txn: t, UI: ui}
	m.pending[pid] = append(m.pending[pid], p)
	return p
}

// Abandon forgets the process's uncommitted transactions (Add returned / Addition closed).
func (m *Refinement) Abandon(pid int) { delete(m.pending, pid) }

func (m *Refinement) SetExpiry(pid int, cfg *reftable.LogExpirationConfig) {
	if cfg == nil {
		delete(m.expiry, pid)
		return
	}
	m.expiry[pid] = [3]uint64{cfg.Time, cfg.MaxUpdateIndex, cfg.MinUpdateIndex}
}

func apply(db *refdb.DB, ps []*Pending, hashSize int, exact bool) *refdb.DB {
	n := db.Clone()
	for _, p := range ps {
		refs, logs := p.Txn.Records(p.UI, hashSize, exact)
		for _, r := range refs {
			if r.Kind == 0 {
				delete(n.Refs, r.Name)
			} else {
				n.PutRef(r)
			}
		}
		for _, l := range logs {
			if l.Deletion {
				delete(n.Logs, refdb.LogKey{Name: l.Name, UI: l.UpdateIndex})
			} else {
				n.PutLog(l)
			}
		}
	}
	return n
}

func (m *Refinement) AfterOp(w *mc.World, ev *mc.Event) {
	if !ev.Mutated {
		return
	}
	lh := listHash(w)
	if m.listHash == "" {
		m.listHash = lh
	}
	// the view can also change when a listed table is replaced or removed; the list-integrity
	// monitor owns that. Here: transitions of tables.list itself.
	if lh == m.listHash {
		return
	}
	m.listHash = lh
	where := caller() + ":" + ev.Op.Kind + "(" + PathClass(firstNonEmpty(ev.Op.Name2, ev.Op.Name)) + ")"
	view, err := ListView(w, m.HashSize)
	if err != nil {
		// C05's business; but a commit we cannot read is also a lost state
		w.Violate(m.Prop, "refine:unreadable-list@"+where, fmt.Sprintf("after %s by p%d the committed state cannot be decoded: %v", ev.Op, ev.Pid, err))
		return
	}
	if view == m.mCanon {
		m.Stutters++
		return
	}
	// commit of the process's own pending transactions (all tables of an Addition at once)?
	if ps := m.pending[ev.Pid]; len(ps) > 0 {
		var open []*Pending
		for _, p := range ps {
			if !p.Committed {
				open = append(open, p)
			}
		}
		if len(open) > 0 {
			n := apply(m.M, open, m.HashSize, m.Exact)
			if n.CanonString(m.HashSize) == view {
				m.M = n
				m.mCanon = view
				for _, p := range open {
					p.Committed = true
					m.committed = append(m.committed, p.Txn.ID)
				}
				m.Commits++
				return
			}
		}
	}
	if ex, ok := m.expiry[ev.Pid]; ok {
		n := m.M.Expire(ex[0], ex[1], ex[2])
		if n.CanonString(m.HashSize) == view {
			m.M = n
			m.mCanon = view
			m.Commits++
			return
		}
	}
	w.Violate(m.Prop, "refine:bad-transition@"+where,
		fmt.Sprintf("after %s by p%d the committed state is neither unchanged nor changed by exactly one pending transaction of p%d.\n--- model (committed so far: %v):\n%s\n--- directory view:\n%s", ev.Op, ev.Pid, ev.Pid, m.committed, m.mCanon, view))
}

// Ack checks the acknowledgement rule when an Add / Commit returns.
func (m *Refinement) Ack(w *mc.World, pid int, what string, res string, ps []*Pending, rejectionExpected bool) {
	if m.Relaxed {
		return
	}
	committed, total := 0, 0
	for _, p := range ps {
		if p.Txn.Empty() {
			continue
		}
		total++
		if p.Committed {
			committed++
		}
	}
	switch {
	case res == "ok":
		if committed != total {
			w.Violate(m.Prop, "ack:success-without-commit@"+what, fmt.Sprintf("p%d: %s returned success but %d of %d transactions were never committed", pid, what, total-committed, total))
		}
	case strings.HasPrefix(res, "PANIC"):
		w.Violate(m.Prop, "ack:panic@"+what, fmt.Sprintf("p%d: %s panicked: %s", pid, what, res))
	default:
		if committed > 0 {
			w.Violate(m.Prop, "ack:failure-after-commit@"+what+":"+errClass(res), fmt.Sprintf("p%d: %s returned %q although its transaction is committed and visible", pid, what, res))
		} else if res != "lockfail" && !rejectionExpected {
			w.Violate(m.Prop, "ack:unexpected-error@"+what+":"+errClass(res), fmt.Sprintf("p%d: %s failed with %q; without I/O faults only ErrLockFailure or a content rejection is allowed", pid, what, res))
		}
	}
}

func errClass(res string) string {
	// strip variable parts (file names)
	r := res
	for _, cut := range []string{"/"} {
		_ = cut
	}
	f := strings.Fields(r)
	var keep []string
	for _, w := range f {
		if strings.Contains(w, "0x") || strings.Contains(w, "/") {
			keep = append(keep, "<path>")
		} else {
			keep = append(keep, w)
		}
	}
	return strings.Join(keep, "_")
}

func (m *Refinement) AfterCall(w *mc.World, p *mc.Proc, call int, res string) {}

func (m *Refinement) AtEnd(w *mc.World) {
	// a handle opened afterwards (real code) sees exactly the model
	got, err := FreshView(w, m.Cfg)
	if err != nil {
		w.Violate(m.Prop, "refine:final-open-fails", fmt.Sprintf("at quiescence a fresh NewStack+scan fails: %v; list=%v dir=%v", err, ListNames(w), w.Names()))
		return
	}
	if got != m.mCanon {
		w.Violate(m.Prop, "refine:final-view-differs", fmt.Sprintf("at quiescence a fresh handle sees\n%s\n--- but the committed transactions %v give\n%s", got, m.committed, m.mCanon))
	}
}

func (m *Refinement) Key(h io.Writer) {
	fmt.Fprintf(h, "M%s|", m.mCanon)
	pids := make([]int, 0, len(m.pending))
	for pid := range m.pending {
		pids = append(pids, pid)
	}
	sort.Ints(pids)
	for _, pid := range pids {
		for _, p := range m.pending[pid] {
			fmt.Fprintf(h, "p%d:%s@%d:%v|", pid, p.Txn.ID, p.UI, p.Committed)
		}
	}
}

// ---------------------------------------------------------------- C10 snapshot monitor

type Snapshot struct {
	Prop     string
	HashSize int
	versions map[string]string // names joined -> canonical view ("" key: no list)
	order    []string
	lastList string
}

func NewSnapshot(prop string, hashSize int) *Snapshot {
	return &Snapshot{Prop: prop, HashSize: hashSize, versions: map[string]string{}}
}

func (m *Snapshot) note(w *mc.World) {
	lh := listHash(w)
	if lh == m.lastList {
		return
	}
	m.lastList = lh
	if lh == "absent" && len(m.order) > 0 {
		// tables.list was removed after it existed: that is not a committed version
		return
	}
	names := strings.Join(ListNames(w), ",")
	if _, ok := m.versions[names]; ok {
		return
	}
	v, err := ListView(w, m.HashSize)
	if err != nil {
		// a broken committed version is C05's finding; do not record it as a legal snapshot
		return
	}
	m.versions[names] = v
	m.order = append(m.order, names)
}

// Init records the initial version.
func (m *Snapshot) Init(w *mc.World) { m.note(w) }

func (m *Snapshot) AfterOp(w *mc.World, ev *mc.Event) {
	if ev.Mutated {
		m.note(w)
	}
}

// Observed is called by a reading process after each of its completed calls.
func (m *Snapshot) Observed(w *mc.World, pid int, after string, names []string, view string, err error) {
	if err != nil {
		w.Violate(m.Prop, "snapshot:read-fails@after-"+callKind(after)+":"+errClassShort(err.Error()),
			fmt.Sprintf("p%d: reading through the handle after %s fails: %v (handle tables %v)", pid, after, err, names))
		return
	}
	want, ok := m.versions[strings.Join(names, ",")]
	if !ok {
		w.Violate(m.Prop, "snapshot:not-a-committed-version@after-"+callKind(after),
			fmt.Sprintf("p%d: after %s the handle holds tables %v, which was never the content of tables.list (versions: %v)", pid, after, names, m.order))
		return
	}
	if want != view {
		w.Violate(m.Prop, "snapshot:mixed-view@after-"+callKind(after),
			fmt.Sprintf("p%d: after %s the handle's view differs from the committed version %v:\n%s\n--- want\n%s", pid, after, names, view, want))
	}
}

// CurrentIndex is the position of the current committed version in commit order.
func (m *Snapshot) CurrentIndex() int { return len(m.order) - 1 }

// NotOlderThan: a successful open / Add / reload settles on a version at least as new as the
// one that was current when the call started.
func (m *Snapshot) NotOlderThan(w *mc.World, pid int, after string, names []string, startIdx int) {
	key := strings.Join(names, ",")
	for i, k := range m.order {
		if k == key {
			if i < startIdx {
				w.Violate(m.Prop, "snapshot:success-but-older-version@after-"+callKind(after),
					fmt.Sprintf("p%d: %s reported success but left the handle on version #%d %v, older than version #%d that was already committed when the call started", pid, after, i, names, startIdx))
			}
			return
		}
	}
}

func errClassShort(s string) string {
	switch {
	case strings.Contains(s, "file already closed"):
		return "file-already-closed"
	case strings.Contains(s, "no such file"):
		return "no-such-file"
	}
	return errClass(s)
}

func (m *Snapshot) AfterCall(w *mc.World, p *mc.Proc, call int, res string) {}
func (m *Snapshot) AtEnd(w *mc.World)                                       {}
func (m *Snapshot) Key(h io.Writer) {
	ks := append([]string{}, m.order...)
	sort.Strings(ks)
	fmt.Fprintf(h, "V%s|", strings.Join(ks, ";"))
}
