#!/bin/bash
# usage: tools/seedcheck.sh <mutation-dir> <name> <prop> [<prop>…]
# 1. confirms in a scratch worktree: suite passes with the patch, demo fails with it and passes without
# 2. applies the patch to /repo, runs the given checks (quick), reverts /repo
# 3. stores the mutation under /verif/seeded/<name>/ with meta.json
# With ISO=1 in the environment step 2 runs a snapshot of /verif against the scratch worktree instead
# (VERIF_DIR/VERIF_REPO), leaving /repo untouched - for use while other checks are binding /repo.
set -u
export GOFLAGS=-mod=mod GOPROXY=off GOSUMDB=off GOTOOLCHAIN=local
M=$1; NAME=$2; shift 2; PROPS="$@"
V=${VERIF_SRC:-/verif}
WT=$(mktemp -d /tmp/seedwt-XXXXXX); rmdir $WT
git -C /repo worktree add -q --detach $WT HEAD || exit 2
cleanup() { git -C /repo worktree remove --force $WT 2>/dev/null; [ "${ISO:-0}" = 1 ] || git -C /repo checkout -- . ; }
trap cleanup EXIT
cd $WT
demo=$(ls $M/demo*_test.go 2>/dev/null | head -1)
res_without="n/a"; res_with="n/a"
if [ -n "$demo" ]; then
  cp $demo $WT/zz_demo_test.go
  if go test -vet=off -count=1 -run . . >/tmp/seed_without.log 2>&1; then res_without=pass; else res_without=FAIL; fi
fi
git apply $M/patch.diff || { echo "patch does not apply"; exit 2; }
if [ -n "$demo" ]; then
  if go test -vet=off -count=1 . >/tmp/seed_with.log 2>&1; then res_with=pass; else res_with=FAIL; fi
  rm -f $WT/zz_demo_test.go
fi
if go test -vet=off -count=1 ./... >/tmp/seed_suite.log 2>&1; then suite=pass; else suite=FAIL; fi
echo "suite-with-patch=$suite demo-without=$res_without demo-with=$res_with"
cd $V
RUNV=$V
if [ "${ISO:-0}" = 1 ]; then
  RUNV=$(mktemp -d /var/tmp/seed-verif-XXXXXX)
  rsync -a --exclude .git --exclude replays --exclude evidence $V/ $RUNV/
  mkdir -p $RUNV/evidence $RUNV/replays
  sed -i "s|=> /repo\$|=> $WT|" $RUNV/go.mod
  export VERIF_DIR=$RUNV VERIF_REPO=$WT
  trap 'cleanup; rm -rf $RUNV' EXIT
else
  git -C /repo apply $M/patch.diff || exit 2
fi
declare -A R
for p in $PROPS; do
  out=$(cd $RUNV && ./bin/vcheck $p --tier quick 2>&1); code=$?
  R[$p]=$code
  echo "--- $p exit=$code"; echo "$out" | grep -E "^VIOLATION|signature|HARNESS|KNOWN|RESULT" | head -8
done
[ "${ISO:-0}" = 1 ] || git -C /repo checkout -- .
mkdir -p $V/seeded/$NAME
cp $M/patch.diff $V/seeded/$NAME/patch.diff
[ -n "$demo" ] && cp $demo $V/seeded/$NAME/demo_test.go.txt
[ -f $M/README.md ] && cp $M/README.md $V/seeded/$NAME/README.md
{
 echo "{"
 echo " \"name\": \"$NAME\","
 echo " \"suite_with_patch\": \"$suite\", \"demo_without_patch\": \"$res_without\", \"demo_with_patch\": \"$res_with\","
 echo " \"checks_run\": {"
 first=1; for p in $PROPS; do [ $first = 1 ] || echo ","; first=0; printf "  \"%s\": %s" $p ${R[$p]}; done; echo
 echo " },"
 echo " \"ran\": \"tools/seedcheck.sh $M $NAME $PROPS (quick tier; exit 1 = detected)\""
 echo "}"
} > $V/seeded/$NAME/meta.auto.json
