#!/bin/bash
# Phase 1 of the mutation sweep: which token-level mutants of /repo's Go sources survive the repository's own
# test suite? usage: tools/mutphase1.sh <outdir> [files…]   (writes <outdir>/survivors.txt: "<file> <id> <desc>")
export GOFLAGS=-mod=mod GOPROXY=off GOSUMDB=off GOTOOLCHAIN=local
V=$(cd "$(dirname "$0")/.." && pwd)
OUT=$1; shift
FILES=${@:-stack.go merged.go reader.go writer.go block.go record.go refname.go iter.go}
mkdir -p $OUT
: > $OUT/all.txt
for f in $FILES; do
  n=$($V/bin/mutate -list /repo/$f | wc -l)
  for i in $(seq 0 $((n-1))); do echo "$f $i" >> $OUT/all.txt; done
done
one() {
  f=$1; i=$2
  D=$(mktemp -d /var/tmp/mut1-XXXXXX)
  (cd /repo && git ls-files '*.go' go.mod go.sum | grep -v '^c/' | xargs -I{} cp --parents {} $D/ 2>/dev/null)
  desc=$($V/bin/mutate -apply $i $D/$f | sed "s|$D/||")
  if (cd $D && timeout 300 go test -vet=off -count=1 . >/dev/null 2>&1); then
    echo "SURVIVES $f $i $desc"
  else
    echo "killed $f $i $desc"
  fi
  rm -rf $D
}
export -f one; export V
cat $OUT/all.txt | xargs -P 12 -L 1 bash -c 'one $0 $1' > $OUT/phase1.txt
grep ^SURVIVES $OUT/phase1.txt | sed 's/^SURVIVES //' > $OUT/survivors.txt
echo "mutants: $(wc -l < $OUT/all.txt) survive the suite: $(wc -l < $OUT/survivors.txt)"
