#!/bin/bash
# usage: tools/isocheck.sh <worktree-of-/repo> <prop>...   - runs quick checks of a snapshot of this verif tree
# (VERIF_SRC, default the directory of this script's parent) against the given worktree; nothing else is touched.
export GOFLAGS=-mod=mod GOPROXY=off GOSUMDB=off GOTOOLCHAIN=local
SRC=${VERIF_SRC:-$(cd "$(dirname "$0")/.." && pwd)}
R=$1; shift
V=$(mktemp -d /var/tmp/iso-verif-XXXXXX)
rsync -a --exclude .git --exclude replays --exclude evidence --exclude seeded --exclude benign $SRC/ $V/
mkdir -p $V/evidence $V/replays
sed -i "s|=> /repo\$|=> $R|" $V/go.mod
trap 'rm -rf $V' EXIT
export VERIF_DIR=$V VERIF_REPO=$R
for p in "$@"; do
  out=$(cd $V && ./bin/vcheck $p --tier ${TIER:-quick} 2>&1); code=$?
  echo "--- $p exit=$code"; echo "$out" | grep -E "^VIOLATION|signature|HARNESS|RESULT" | head -8
  [ -n "$KEEP_EVIDENCE" ] && cp $V/evidence/$p.json $KEEP_EVIDENCE/ 2>/dev/null
done
