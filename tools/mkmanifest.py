#!/usr/bin/env python3
"""Generates /verif/MANIFEST.json from the table below (kept in one place so that the
manifest stays valid and consistent while checks are added)."""
import json, os, sys

E1_NOTE = ("Trusted: the in-memory POSIX directory model (O_EXCL create, atomic rename, unlink keeps open inodes; "
           "DESIGN.md 4.1), the binder's import rewriting (reported in evidence.binding), the reference model (a map) and the "
           "independent decoder model/fmtspec. Bounds: <=4 processes, 1-3 calls each, tiny transactions that all touch one shared ref; "
           "4-process scenarios are preemption-bounded. Outside: Windows semantics, I/O errors, power loss, expiry of the 2.5 s reload deadline.")

E2_NOTE = ("Trusted: model/tablegen (the enumerated families), model/refdb (a map) and model/fmtspec (independent decoder written from the format description; it shares no code with the repository and is itself cross-checked by having to accept every writer output). "
           "Bounds: families F1-F4 of DESIGN.md 5.1 x the configuration grid (quick: pairwise-covering subset plus every single-dimension variation; thorough: full grid); payload values from small alphabets plus a SHA-256 keystream; tables up to a few hundred records / 8 index levels.")

CHECKS = {}

def check(pid, level, text, note, technique, design, engine, thorough=True):
    CHECKS[pid] = {
        "property_id": pid,
        "quick_cmd": f"bin/vcheck {pid} --tier quick",
        **({"thorough_cmd": f"bin/vcheck {pid} --tier thorough"} if thorough else {}),
        "evidence_file": f"/verif/evidence/{pid}.json",
        "replay_cmd_template": "bin/vcheck replay {path}",
        "engine": engine,
        "level_claimed": {"category": level, "text": text, "design_ref": design},
        "level_note": note,
        "technique": technique,
    }

check("C04", "model_checking",
      "Every interleaving, at filesystem-call granularity, of 2-3 handle processes (unbounded preemptions) and of 4 processes with at most 2 preemptions (3 in the thorough tier) running Add / multi-table Addition / CompactAll / auto-compaction from several initial stacks and both hash types is executed on the real stack code; at every change of tables.list the decoded committed state must equal the reference map or the map plus exactly one pending transaction of the committing process, every Add/Commit return is checked against 'success iff committed', and at quiescence a fresh real NewStack must read exactly the model. This is a refinement check on every explored trace, which is what linearizability of a transactional store means here.",
      E1_NOTE, "stateless DFS over all schedules of the real code with state-cache pruning; refinement against a reference map at every tables.list transition", "DESIGN.md 4, 6/C04", "stackmc")
check("C05", "model_checking",
      "In the same explorations (plus crash-as-choice and mixed-hash scenarios) the list-integrity invariant is evaluated after every single filesystem mutation of every execution: each listed name exists, decodes as a complete well-formed table (independent decoder) of the stack's hash type, ranges strictly increase, and the real NewStack succeeds on a clone of every distinct (list, tables) state. Because a crash does not change the directory, checking after every mutation covers every crash point of the explored schedules.",
      E1_NOTE, "stateless DFS over all schedules; invariant checked after every filesystem mutation, real NewStack on a clone of each distinct state", "DESIGN.md 4, 6/C05", "stackmc")
check("C08", "model_checking",
      "Every create/unlink/rename of a *.lock path in every explored interleaving (2 and 3 processes, unbounded preemptions, including three overlapping calls) is checked: a lock file may be removed, renamed or overwritten only by the process whose O_EXCL create produced it, and only a file the committer created may be renamed onto tables.list.",
      E1_NOTE, "stateless DFS over all schedules; ownership monitor on every lock-file event", "DESIGN.md 4, 6/C08", "stackmc")
check("C10", "model_checking",
      "A reading handle performs a full ref+log scan after each of its completed calls (open, Add that fails and reloads, Add that succeeds) while 1-2 other processes add and compact (full and partial ranges); in every interleaving the scan must succeed, the handle's table names must equal one version that tables.list actually had, and the scanned records must equal that version's decoded view.",
      E1_NOTE, "stateless DFS over all schedules; snapshot monitor compares each read with the recorded committed versions", "DESIGN.md 4, 6/C10", "stackmc")
check("C16", "model_checking",
      "At the return of every call of every explored interleaving the calling process must own no *.lock or *.reftmp entry (unless it holds an open Addition), and at crash-free quiescence the directory must be exactly tables.list plus the tables it names; failed Adds, rejected transactions and compactions that lose lock races are part of the explored space.",
      E1_NOTE, "stateless DFS over all schedules; residue monitor at every idle point and at quiescence", "DESIGN.md 4, 6/C16", "stackmc")

check("C06", "fault_enumeration",
      "For each victim call kind (Add, auto-compacting Add, two-table Addition+Commit, CompactAll, CompactAll with expiry, partial-range compaction, Clean, Close) x initial stack x hash type, the victim runs the real code and is killed immediately before its k-th filesystem call for EVERY k (descriptor writes and closes included); then a survivor (once as is, once after leftover lock files were removed) opens, scans, adds, scans, compacts, scans, cleans, closes, reopens and scans. Every scan must equal the reference model's state before or after the operation (after, if the call had returned success), survivor reads never fail, survivor writes fail only with ErrLockFailure while a leftover tables.list.lock exists, and the C05 list invariant holds after every mutation. The enumerated object is the crash point, hence fault_enumeration.",
      "Process crash only (completed calls persist, no cleanup runs); in addition one filesystem call of the victim (every position in turn) fails with EIO and the victim finishes or is killed at a later call; the POSIX directory model of DESIGN.md 4.1; one sequential survivor (concurrent survivors: crash-as-choice scenario of C05). Power loss / torn writes are outside C06 by its own statement.",
      "exhaustive crash-point enumeration of the real call over the in-memory directory, alone and after every single failing filesystem call of the call, + survivor program against a reference map", "DESIGN.md 4.4, 6/C06", "crashseq")

check("C01", "model_checking",
      "Small-scope exhaustive enumeration: every table of families F1 (all sorted sets of <=3 refs over a name alphabet rich in prefix relations x every kind vector x update index at both limits; all sets of <=3 log keys x entry/deletion x 4 message shapes), F2 (block structure: 1..120 records x 3 name styles x refs/logs/both) and F3 (fill sweep: every length of a ref name / symref target / compressible and incompressible log message up to the block size) x the configuration grid is written by the real Writer and read back by the real Reader; the scan must equal the normalised input record for record. Inputs the writer rejects are counted, a writer panic is a failure.",
      E2_NOTE, "bounded-exhaustive enumeration of inputs x configurations against a reference model (every case runs the real writer and reader)", "DESIGN.md 5, 6/C01", "codec")
check("C02", "model_checking",
      "For every table of F2/F3 x configurations (index shapes from none to 8 levels, multi-block top levels, a section following an indexed section) every lookup key of every equivalence class (each key, successor, predecessor, proper prefixes, empty, beyond-last; for logs each (name,u) with u in {index, index+-1, 0, max} and absent names) is sought with SeekRef, SeekLog, ReadRef and ReadLogAt; the iteration after each seek must be exactly the suffix of the normalised input at or after the key.",
      E2_NOTE + " Iteration after a seek is compared to exhaustion for sections of <=16 records and for the first 4 records otherwise.", "bounded-exhaustive enumeration of tables x lookup-key classes against the sorted input (real writer and reader)", "DESIGN.md 5, 6/C02", "codec")
check("C03", "model_checking",
      "Every stack of 1..3 tables (4 in the thorough tier) over 3 ref names, and of 1..2 tables over 4 log keys plus 3-table stacks over 2 keys (full 3-table product in the thorough tier), each key per table in {absent, value_i, deletion}, is read through the raw merged view and the stack view with every seek-key class; each result must equal the newest-wins overlay of the reference model (raw view keeps tombstones, stack view drops them), in strictly increasing key order.",
      E2_NOTE, "bounded-exhaustive enumeration of table stacks x seek keys against the overlay of a reference map", "DESIGN.md 6/C03", "codec")
check("C11", "model_checking",
      "Every table of family F4 (object ids sharing prefixes of 0/1/19 bytes so the abbreviation length varies, 1..160 refs, min update index 0 and 5) x {object index, SkipIndexObjects, position lists omitted because they did not fit} x block sizes x both hash sizes x every object id (present, absent, sharing the abbreviation) is queried with RefsFor; and every stack of <=3 tables over 3 names in which each name is absent / points at A / is deleted / points at B with peeled A, through the raw and the stack view. Results must equal the reference filter (live refs whose value or peeled value is the id, once each, name order, same fields as SeekRef).",
      E2_NOTE, "bounded-exhaustive enumeration of tables/stacks x object ids against the filter of a reference map", "DESIGN.md 6/C11", "codec")
check("C14", "model_checking",
      "Every table emitted in the C01 enumeration, and every table file written by Add and by compaction in a stack-history search (internal/hist), is decoded by model/fmtspec, an independent validator of the reftable format (header = footer prefix, CRC-32, section positions, block types/lengths/padding, restart tables pointing at full keys, strictly ascending keys, every index level covering all children with their last keys and positions, object-index positions equal to the ref blocks containing each id, update indices inside the header range), and the records it decodes must equal the records given to the writer. Each emitted file is one program validated against its source.",
      E2_NOTE, "translation validation of every enumerated writer output by an independent format decoder", "DESIGN.md 5.2, 6/C14, Appendix A", "codec")

SEQ_NOTE = ("Trusted: the in-memory directory model in atomic mode (one call runs to completion), model/refdb, model/fmtspec. "
            "Bounds as stated per check; every node of the search is reached by replaying its shortest history from scratch on fresh real objects (no cloning).")
check("C07", "model_checking",
      "Explicit-state search over histories of one handle: alphabet {set, delete, symref, peeled tag on two refs, append log, delete newest log} interleaved with compaction of EVERY contiguous range of the current stack and CompactAll (quick: <=3 transactions and <=2 compactions, plus 4 transactions and 1 compaction, plus auto-compacting histories of 5 transactions; thorough: one more transaction and five write configurations). After every transaction the full scan through Stack.Merged() must equal the reference map; after every compaction it must be identical to the scan before; the compacted table must decode (independent decoder) to the newest-wins overlay of its inputs with ref tombstones dropped only if the range includes the oldest table. For short histories the first compaction is additionally re-run with each of its filesystem calls (reads and writes included) failing with EIO in turn: failed or not, the view must be unchanged and a fresh handle must agree.",
      SEQ_NOTE, "explicit-state search (DFS with state dedup on table contents) over operation sequences of the real Stack against a reference map", "DESIGN.md 5.3, 6/C07", "seqbfs")
check("C09", "model_checking",
      "Explicit-state search over histories of 2-3 handles on one directory (auto-compacting and not; one family with handles of different hash types): alphabet per handle {Add, retry of a failed Add, NewAddition+Close, CompactAll, Clean, hold the list lock (open Addition), release it}, depth 7 for two handles and 5 for three (thorough 9 / 7). While another handle holds the lock every write must fail with ErrLockFailure and change nothing, and a failed Add must still leave the handle refreshed. With the reference notion of staleness (handle's table names != tables.list): a stale Add/NewAddition must return ErrLockFailure, a stale CompactAll must change nothing, a stale Clean must fail, the directory hash must be unchanged; after a failed Add UpToDate() holds, NextUpdateIndex() exceeds every committed index and the immediate retry succeeds; non-stale calls behave as the reference map says.",
      SEQ_NOTE, "explicit-state search over multi-handle operation sequences of the real Stack with a reference staleness oracle", "DESIGN.md 5.3, 6/C09", "seqbfs")
check("C12", "model_checking",
      "Breadth-first search over all reachable (live set, tombstone set) states of a stack with name checking, over 6 well-formed names rich in prefix relations and 5 malformed ones: in EVERY state every transaction of <=2 records (add or delete; 242 transactions, thorough adds 3-record ones) is submitted through Add and through both two-table splits of an Addition, and CompactAll is applied; acceptance must equal the reference rule (accept iff every added name is well-formed and (live - deletions) + additions is conflict-free) and the live set read back must equal the model's and be conflict-free.",
      SEQ_NOTE + " One known finding (a multi-table Addition whose earlier table is only legal because of a later one is refused) is listed in known_findings.json with a class-specific signature; any other disagreement is reported.", "breadth-first search over reachable name states x all small transactions on the real Stack against a reference rule", "DESIGN.md 6/C12", "seqbfs")
check("C13", "model_checking",
      "Every stack of <=3 tables whose tables hold, per ref, nothing / an entry at one of two times / a tombstone of the entry in the table below (quick: reduced options for the second ref), with refs present, x every expiry configuration from {Time: unset, below, equal to, between and above the data values} x {Min, Max update index: unset, 1..4}: CompactAll(cfg) on the real Stack must leave exactly the entries the reference rule keeps (drop iff time < Time or index outside [Min,Max]), every kept field identical, refs untouched, and a handle opened afterwards must see the same.",
      SEQ_NOTE, "bounded-exhaustive enumeration of stacks x expiry configurations on the real Stack against the reference expiry rule", "DESIGN.md 6/C13", "seqbfs")

check("C17", "model_checking",
      "(a) The real segment chooser is run on EVERY table-size vector of length 0..5 (thorough: 0..7, 39 million vectors) over 12 sizes straddling the power-of-two class boundaries: it must report nothing iff no two adjacent sizes share a size class, otherwise a contiguous in-range segment of at least two tables, and iterating 'suggest, replace by the sum' must terminate in fewer than len steps. (b) 192 single-writer workload shapes (name length x value kind incl. deletion-only x 1/3/20 refs per transaction x fresh or rewritten names x 4 write configurations) of identical-size transactions run on the real Stack for N = 512 (thorough 4096) transactions, checked after EVERY Add (commit, then an explicit AutoCompact): AutoCompact compacts iff two adjacent tables share a size class computed independently from the file lengths in the directory, a compaction that ran reduced the table count and did not fail, depth <= 2*log2(n), Stats.EntriesWritten <= n*log2(n)*entries per transaction.",
      "In-memory directory in atomic mode (single writer). 'For all N' is decided up to the stated N. Three small-N exceedances of the entries bound (n = 3, 4, 12) are genuine but benign consequences of the policy and are listed as known findings; every other n is checked.",
      "exhaustive enumeration of size vectors on the real chooser + exhaustive per-step checking of workload histories on the real Stack", "DESIGN.md 6/C17", "autocompact")

check("C18", "fault_enumeration",
      "Deviation-bounded corruption of a corpus of valid tables, one per distinct layout the writer produces (both versions, padded/unaligned, refs/logs/both, 0-2 index levels, object index): 0 deviations = the table; 1 deviation = EVERY offset x a 14-value alphabet (thorough: all 255 other values), every truncation length, every one-byte insertion and deletion, every offset x value inside the inflated payload of a final log block (re-deflated), and length-field edits - at EVERY offset an overwrite with hostile varints of 2-10 bytes and with the varint of every block position of the table, of 0 and of the file size, so that every position field gets pointed at every block including its own; 2 deviations = all pairs of substitutions over structural bytes (block headers, restart tables, first-record varints, footer positions). The footer CRC is repaired and header edits mirrored into the footer whenever the edit touches them (both variants are run). Each mutant goes through NewReader, full ref and log scans, seeks, and RefsFor via the library's own ByteBlockSource; every call must return: no panic (attributed to its innermost reftable frame), no hang (deterministic read/step budgets), no unbounded allocation (per-input allocation budget; workers under an address-space limit so that a fatal out-of-memory is attributed to the mutant).",
      "'For all byte strings' is decided for all strings within one edit (two structural edits) of the corpus. Coverage-guided fuzzing, which the property text mentions, is sampling - a different family - and is not used. The enumerated objects are corruptions, hence fault_enumeration.",
      "exhaustive enumeration of 1- and 2-edit corruptions of a layout-covering corpus, driven through every read path of the real reader", "DESIGN.md 6/C18", "corrupt")

check("C19", "model_checking",
      "For five shared objects (a Reader over memory with 128-byte blocks, an unaligned one, a file-backed SHA-256 one over the in-memory directory, a file-backed one with three 128 KiB blocks, and a Merged view of three readers) every ordered pair of 8 read programs (seek+next on refs and logs, RefsFor, scans, ReadRef, ReadLogAt) and selected triples (thorough: all triples) run as goroutines under the controlled scheduler with scheduling points at every API call and every ReadBlock/ReadAt; ALL interleavings are explored. (i) every goroutine must get exactly the results it gets alone; (ii) when the package uses no synchronisation primitives, a deep hash (through unexported fields) of the shared object graph and of all package-level variables must not change during any read step - an unsynchronised write on a read path is a data race as soon as two goroutines take it. Supplementary, not part of the exhaustive claim: the same bodies free-running under the Go race detector; a report is a violation (it is always a real race), silence is not evidence.",
      "The observable half of C19 is decided at ReadBlock/API-call granularity; 'no data race in the Go memory model' for writes invisible in the object graph is outside a cooperative scheduler (brief: hand-offs are happens-before edges). If the package imports sync its primitives are replaced by shim/vsync (blocking operations are visible waits with an enabledness condition; deadlock is reported) and the frozen-state invariant becomes lock-aware (the shared object graph may change only while the changing goroutine holds an exclusive lock); with sync/atomic it is switched off and the evidence says so. Channels and sync.Cond are not modelled.",
      "stateless DFS over all goroutine interleavings of the real readers + frozen-state invariant; race detector as labelled supplement", "DESIGN.md 6/C19", "sharedread")

check("C15", "translation_validation",
      "Each program is one table of families F1 (strided), F2, F3, F4 x write configurations both implementations support, written once by the Go writer and once by the C writer (cdriver/driver.c linked against /repo/c, compiled by the check from the current working tree), or one stack history of <=3 transactions executed by Go, by C, or alternating, with an optional final CompactAll by either. Every program is then read by BOTH implementations - full ref and log scans, SeekRef around the first/middle/last key, SeekLog at several indices, RefsFor for every object id class - and the two dumps must be byte-identical; a crash of the C process is attributed to the input and reported.",
      "The C side of the line protocol (cdriver/driver.c, ~500 lines) and gcc + system zlib are trusted. Restricted to options both implementations expose and NUL-free strings; error statuses compared as succeed/fail. Agreement of the two implementations is not evidence of correctness (C14's independent decoder is); it is what C15 states.",
      "differential execution of every enumerated table/stack history on both implementations (exhaustive over the enumerated programs)", "DESIGN.md 6/C15, Appendix C", "cdiff")

ALL = [f"C{n:02d}" for n in range(1, 20)]
NOT_YET = "check not built yet in this working session (design in DESIGN.md section 6); will be claimed once it runs"

manifest = {
    "version": 1,
    "setup_cmd": "./setup.sh",
    "hooks": {
        "guard": "verif-overlay",
        "enable": "no hooks live in /repo: every check rewrites a copy of /repo's working tree at build time (import paths of os, io/ioutil, time, math/rand -> engine shims; map ranges made deterministic) and builds it with `go build -overlay`, see DESIGN.md section 3",
        "baseline_off_cmd": "cd /repo && GOFLAGS=-mod=mod GOPROXY=off GOSUMDB=off GOTOOLCHAIN=local go test -vet=off -count=1 ./...",
        "source_commits": [],
        "add_only": True,
    },
    "engines": [
        {"name": "stackmc", "path": "harness/stackmc", "serves_properties": ["C04", "C05", "C08", "C10", "C16"],
         "kind_free_text": "engine E1: in-memory directory + cooperative scheduler owning every filesystem call + deviation-bounded stateless DFS with state cache over the real stack code"},
        {"name": "codec", "path": "harness/codec", "serves_properties": ["C01", "C02", "C03", "C11", "C14"],
         "kind_free_text": "engine E2: bounded-exhaustive enumeration of tables, stacks, lookup keys and configurations on the real writer/reader/merged view against reference models"},
        {"name": "seqbfs", "path": "harness/seqbfs", "serves_properties": ["C07", "C09", "C12", "C13"],
         "kind_free_text": "sequential-history engine: explicit-state search over operation sequences on real Stack handles in atomic mode against reference models (internal/hist is shared with C14)"},
        {"name": "autocompact", "path": "harness/autocompact", "serves_properties": ["C17"],
         "kind_free_text": "exhaustive size-vector enumeration on the real segment chooser; workload histories on the real Stack checked after every Add"},
        {"name": "corrupt", "path": "harness/corrupt", "serves_properties": ["C18"],
         "kind_free_text": "deviation-bounded corruption enumeration over a corpus of writer-produced tables; workers under ulimit -v with per-mutant markers"},
        {"name": "sharedread", "path": "harness/sharedread", "serves_properties": ["C19"],
         "kind_free_text": "engine E1 scheduler over goroutines sharing a Reader/Merged; scheduling points at API calls, ReadBlock and the sync shim's blocking operations; deep-hash frozen-state invariant (strict or lock-aware); -race build for the supplementary pass"},
        {"name": "cdiff", "path": "harness/cdiff", "serves_properties": ["C15"],
         "kind_free_text": "Go harness + persistent C driver process (cdriver/driver.c linked against /repo/c) over real files in a scratch directory"},
        {"name": "crashseq", "path": "harness/crashseq", "serves_properties": ["C06"],
         "kind_free_text": "engine E1 in sequential mode: every filesystem-call boundary of a call is a crash point and every filesystem call a failure point; survivor program on the real code"},
    ],
    "checks": [CHECKS[p] for p in ALL if p in CHECKS],
    "not_applicable": [{"property_id": p, "reason": NOT_YET} for p in ALL if p not in CHECKS],
    "notes": "All checks rebuild from /repo's current working tree via bin/vcheck (bind -> go build -overlay -> run -> remove scratch). Exit 0 held / 1 VIOLATION / 2 HARNESS-ERROR. Genuine defects found and repaired are listed in known_findings.json (status fixed) with their fix: commits in /repo.",
}
json.dump(manifest, open(os.path.join(os.path.dirname(__file__), "..", "MANIFEST.json"), "w"), indent=1)
print("wrote MANIFEST.json with", len(manifest["checks"]), "checks")
