// Command mutate lists and applies token-level mutants of a Go source file (used to look for gaps in the
// checks: a mutant that the repository's tests AND the quick checks let pass is either equivalent or a gap).
//
//	mutate -list file.go            prints one line per mutant: <id> <line> <orig> -> <new>  | source line
//	mutate -apply <id> file.go      rewrites file.go in place with mutant <id>
package main

import (
	"flag"
	"fmt"
	"go/scanner"
	"go/token"
	"os"
	"strings"
)

type mutant struct {
	off  int
	old  string
	new  string
	line int
}

func main() {
	list := flag.Bool("list", false, "")
	apply := flag.Int("apply", -1, "")
	flag.Parse()
	path := flag.Arg(0)
	src, err := os.ReadFile(path)
	if err != nil {
		fmt.Println(err)
		os.Exit(2)
	}
	fset := token.NewFileSet()
	f := fset.AddFile(path, fset.Base(), len(src))
	var s scanner.Scanner
	s.Init(f, src, nil, 0)
	var ms []mutant
	type tk struct {
		pos token.Pos
		tok token.Token
		lit string
	}
	var toks []tk
	for {
		pos, tok, lit := s.Scan()
		if tok == token.EOF {
			break
		}
		toks = append(toks, tk{pos, tok, lit})
	}
	add := func(t tk, old, nw string) {
		ms = append(ms, mutant{off: f.Offset(t.pos), old: old, new: nw, line: f.Line(t.pos)})
	}
	for i, t := range toks {
		switch t.tok {
		case token.LSS:
			add(t, "<", "<=")
		case token.LEQ:
			add(t, "<=", "<")
		case token.GTR:
			add(t, ">", ">=")
		case token.GEQ:
			add(t, ">=", ">")
		case token.LAND:
			add(t, "&&", "||")
		case token.LOR:
			add(t, "||", "&&")
		case token.INT:
			// small constants next to + or - : off by one
			if i > 0 && (toks[i-1].tok == token.ADD || toks[i-1].tok == token.SUB) && (t.lit == "1" || t.lit == "2" || t.lit == "3" || t.lit == "4") {
				n := int(t.lit[0] - '0')
				add(t, t.lit, fmt.Sprint(n+1))
				add(t, t.lit, fmt.Sprint(n-1))
			}
		case token.IDENT:
			if t.lit == "true" {
				add(t, "true", "false")
			} else if t.lit == "false" {
				add(t, "false", "true")
			}
		case token.CONTINUE:
			add(t, "continue", "break")
		case token.EQL:
			// x == nil / len(x) == 0 style guards are realistic to get wrong; plain == is usually blatant
			if i+1 < len(toks) && toks[i+1].tok == token.INT {
				add(t, "==", "!=")
			}
		}
	}
	lines := strings.Split(string(src), "\n")
	if *list {
		for i, m := range ms {
			fmt.Printf("%d %d %s -> %s | %s\n", i, m.line, m.old, m.new, strings.TrimSpace(lines[m.line-1]))
		}
		return
	}
	if *apply < 0 || *apply >= len(ms) {
		fmt.Println("no such mutant")
		os.Exit(2)
	}
	m := ms[*apply]
	if string(src[m.off:m.off+len(m.old)]) != m.old {
		fmt.Println("token text mismatch")
		os.Exit(2)
	}
	out := append(append(append([]byte{}, src[:m.off]...), m.new...), src[m.off+len(m.old):]...)
	if err := os.WriteFile(path, out, 0o644); err != nil {
		fmt.Println(err)
		os.Exit(2)
	}
	fmt.Printf("%s:%d: %s -> %s | %s\n", path, m.line, m.old, m.new, strings.TrimSpace(lines[m.line-1]))
}
