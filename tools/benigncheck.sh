#!/bin/bash
# usage: tools/benigncheck.sh <patch.diff> <prop>...   - applies a behaviour-preserving change to /repo,
# runs the given quick checks (all must exit 0), restores /repo.
cd "$(dirname "$0")/.."
P=$1; shift
git -C /repo apply "$P" || { echo "patch does not apply"; exit 2; }
export GOFLAGS=-mod=mod GOPROXY=off GOSUMDB=off GOTOOLCHAIN=local
(cd /repo && go test -vet=off -count=1 ./... >/tmp/.benign.suite 2>&1) && echo "suite=pass" || echo "suite=FAIL"
for p in "$@"; do
  out=$(./bin/vcheck $p --tier quick 2>&1); code=$?
  echo "$p exit=$code $(echo "$out" | grep -E '^VIOLATION|HARNESS' | head -2 | tr '\n' ' ' | cut -c1-220)"
done
git -C /repo checkout -- .
