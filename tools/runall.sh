#!/bin/bash
# Runs every check's quick command (as registered in MANIFEST.json) and prints one line per check.
cd "$(dirname "$0")/.."
tier=${1:-quick}
python3 - "$tier" <<'PY' > /tmp/.runall.cmds
import json,sys
m=json.load(open('MANIFEST.json'))
for c in m['checks']:
    print(c['property_id'], c['quick_cmd'] if sys.argv[1]=='quick' else c.get('thorough_cmd',c['quick_cmd']))
PY
rc=0
while read -r id cmd; do
  s=$(date +%s)
  out=$($cmd 2>&1); code=$?
  e=$(date +%s)
  echo "$id exit=$code $((e-s))s $(echo "$out" | grep -c '^KNOWN-FINDING') known $(echo "$out" | grep -E '^VIOLATION|HARNESS' | head -2 | tr '\n' ' ' | cut -c1-200)"
  [ $code -ne 0 ] && rc=1
done < /tmp/.runall.cmds
exit $rc
