#!/bin/bash
# Re-applies every seeded change in turn and runs the quick checks that are recorded as catching it;
# prints one line per change.
#   tools/reseed.sh            applies to /repo itself (git -C /repo apply … ; git -C /repo checkout -- .)
#   tools/reseed.sh --isolated applies to a scratch worktree of /repo and runs a snapshot of /verif against
#                              it (VERIF_REPO/VERIF_DIR), so that /repo and /verif stay free meanwhile
cd "$(dirname "$0")/.."
V=$PWD; R=/repo; ISO=0
if [ "$1" = "--isolated" ]; then
  ISO=1; shift
  R=$(mktemp -d /var/tmp/reseed-wt-XXXXXX); rmdir $R
  git -C /repo worktree add -q --detach $R HEAD || exit 2
  V=$(mktemp -d /var/tmp/reseed-verif-XXXXXX)
  rsync -a --exclude .git --exclude replays --exclude evidence $PWD/ $V/
  mkdir -p $V/evidence $V/replays
  sed -i "s|=> /repo\$|=> $R|" $V/go.mod   # the snapshot's module graph points at the scratch worktree
  trap 'git -C /repo worktree remove --force $R; git -C /repo worktree prune; rm -rf $V' EXIT
fi
export VERIF_DIR=$V VERIF_REPO=$R
for d in ${@:-seeded/*/}; do
  n=$(basename $d)
  props=$(python3 -c "import json;print(' '.join(json.load(open('$d/meta.json'))['detected_by_quick_checks']))")
  if git -C $R apply --check $PWD/$d/patch.diff 2>/dev/null; then
    git -C $R apply $PWD/$d/patch.diff
  elif git -C $R apply --3way $PWD/$d/patch.diff >/dev/null 2>&1 && ! git -C $R diff --cached --name-only --diff-filter=U | grep -q .; then
    git -C $R reset -q   # keep the merged change in the working tree only
  else
    git -C $R reset -q --hard
    echo "$n: PATCH-DOES-NOT-APPLY (tree has moved on; the change was confirmed against the tree of its time)"; continue
  fi
  res=""
  for p in $props; do
    (cd $V && ./bin/vcheck $p --tier quick) >$V/.reseed.out 2>&1; code=$?
    res="$res $p=$code"
  done
  git -C $R checkout -- .
  echo "$n:$res"
done
