#!/bin/bash
# Re-applies every seeded change to /repo in turn and runs the quick checks that are recorded as
# catching it; prints one line per change. /repo is restored after each.
cd "$(dirname "$0")/.."
for d in seeded/*/; do
  n=$(basename $d)
  props=$(python3 -c "import json;print(' '.join(json.load(open('$d/meta.json'))['detected_by_quick_checks']))")
  if git -C /repo apply --check $PWD/$d/patch.diff 2>/dev/null; then
    git -C /repo apply $PWD/$d/patch.diff
  elif git -C /repo apply --3way $PWD/$d/patch.diff >/dev/null 2>&1 && ! git -C /repo diff --cached --name-only --diff-filter=U | grep -q .; then
    git -C /repo reset -q   # keep the merged change in the working tree only
  else
    git -C /repo reset -q --hard
    echo "$n: PATCH-DOES-NOT-APPLY (tree has moved on; the change was confirmed against the tree of its time)"; continue
  fi
  res=""
  for p in $props; do
    ./bin/vcheck $p --tier quick >/tmp/.reseed.out 2>&1; code=$?
    res="$res $p=$code"
  done
  git -C /repo checkout -- .
  echo "$n:$res"
done
