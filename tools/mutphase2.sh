#!/bin/bash
# Phase 2 of the mutation sweep: run the quick checks against every mutant that survived the repository's suite.
# usage: tools/mutphase2.sh <outdir>     (reads <outdir>/survivors.txt, appends to <outdir>/phase2.txt)
# Works on a scratch worktree of /repo and a snapshot of /verif; /repo and /verif themselves are not touched.
export GOFLAGS=-mod=mod GOPROXY=off GOSUMDB=off GOTOOLCHAIN=local
SRC=$(cd "$(dirname "$0")/.." && pwd)
OUT=$1
R=$(mktemp -d /var/tmp/mut2-wt-XXXXXX); rmdir $R
git -C /repo worktree add -q --detach $R HEAD || exit 2
V=$(mktemp -d /var/tmp/mut2-verif-XXXXXX)
rsync -a --exclude .git --exclude replays --exclude evidence --exclude seeded --exclude benign $SRC/ $V/
mkdir -p $V/evidence $V/replays
sed -i "s|=> /repo\$|=> $R|" $V/go.mod
trap 'git -C /repo worktree remove --force $R; git -C /repo worktree prune; rm -rf $V' EXIT
export VERIF_DIR=$V VERIF_REPO=$R
props_for() {
  case $1 in
    stack.go) echo C04 C05 C16 C09 C10 C07 C13 C12 C08 C06 C17 ;;
    merged.go) echo C03 C07 C11 C13 C15 ;;
    reader.go) echo C02 C01 C03 C11 C18 C14 C15 ;;
    writer.go) echo C01 C14 C02 C11 C07 C15 ;;
    block.go) echo C01 C02 C14 C18 C15 ;;
    record.go) echo C01 C14 C18 C11 C15 ;;
    refname.go) echo C12 ;;
    iter.go) echo C02 C03 C11 C01 ;;
  esac
}
while read -r f i desc; do
  grep -q "^[A-Z-]* $f $i " $OUT/phase2.txt 2>/dev/null && continue
  $SRC/bin/mutate -apply $i $R/$f >/dev/null || continue
  res="UNDETECTED"
  for p in $(props_for $f); do
    out=$(cd $V && timeout 1500 ./bin/vcheck $p --tier quick 2>&1); code=$?
    if [ $code -eq 1 ]; then res="DETECTED-by-$p"; break; fi
    if [ $code -ne 0 ]; then res="HARNESS-ERROR-in-$p"; echo "$out" | tail -5 > $OUT/harness-$f-$i.txt; break; fi
  done
  git -C $R checkout -- .
  echo "$res $f $i $desc" >> $OUT/phase2.txt
done < $OUT/survivors.txt
echo done >> $OUT/phase2.txt
