#!/bin/bash
# Phase 2 of the mutation sweep: run the quick checks against every mutant that survived the repository's suite.
# usage: tools/mutphase2.sh <outdir>     (reads <outdir>/survivors.txt, appends to <outdir>/phase2.txt)
# Works on a scratch worktree of /repo and a snapshot of /verif; /repo and /verif themselves are not touched.
export GOFLAGS=-mod=mod GOPROXY=off GOSUMDB=off GOTOOLCHAIN=local
SRC=$(cd "$(dirname "$0")/.." && pwd)
OUT=$1
R=$(mktemp -d /var/tmp/mut2-wt-XXXXXX); rmdir $R
git -C /repo worktree add -q --detach $R HEAD || exit 2
V=$(mktemp -d /var/tmp/mut2-verif-XXXXXX)
rsync -a --exclude .git --exclude replays --exclude evidence --exclude seeded --exclude benign $SRC/ $V/
mkdir -p $V/evidence $V/replays
sed -i "s|=> /repo\$|=> $R|" $V/go.mod
trap 'git -C /repo worktree remove --force $R; git -C /repo worktree prune; rm -rf $V' EXIT
export VERIF_DIR=$V VERIF_REPO=$R
# the checks worth running depend on where the mutant is (file and line)
props_for() {
  f=$1; l=$2
  case $f in
    stack.go)
      if [ $l -lt 130 ]; then echo C04 C05 C16 C10
      elif [ $l -lt 260 ]; then echo C10 C09 C04 C05
      elif [ $l -lt 460 ]; then echo C04 C05 C16 C08 C12 C09
      elif [ $l -lt 630 ]; then echo C07 C13 C04
      elif [ $l -lt 790 ]; then echo C04 C05 C16 C08 C07
      elif [ $l -lt 900 ]; then echo C17 C04
      else echo C16 C06 C05; fi ;;
    merged.go) echo C03 C07 C11 ;;
    reader.go)
      if [ $l -lt 210 ]; then echo C01 C18
      elif [ $l -lt 360 ]; then echo C01 C02 C18
      elif [ $l -lt 560 ]; then echo C02 C03 C18
      else echo C11 C18; fi ;;
    writer.go) if [ $l -lt 400 ]; then echo C01 C14 C02; else echo C11 C14 C01; fi ;;
    block.go)
      if [ $l -lt 160 ]; then echo C01 C14
      elif [ $l -lt 260 ]; then echo C01 C18
      else echo C02 C18; fi ;;
    record.go) echo C01 C18 C14 ;;
    refname.go) echo C12 ;;
    iter.go) echo C11 C03 ;;
  esac
}
while read -r f i desc; do
  grep -q "^[A-Z-]* $f $i " $OUT/phase2.txt 2>/dev/null && continue
  $SRC/bin/mutate -apply $i $R/$f >/dev/null || continue
  res="UNDETECTED"
  line=$(echo "$desc" | sed -E 's/^[^:]*:([0-9]+):.*/\1/')
  for p in $(props_for $f $line); do
    out=$(cd $V && timeout 1500 ./bin/vcheck $p --tier quick 2>&1); code=$?
    if [ $code -eq 1 ]; then res="DETECTED-by-$p"; break; fi
    if [ $code -ne 0 ]; then res="HARNESS-ERROR-in-$p"; echo "$out" | tail -5 > $OUT/harness-$f-$i.txt; break; fi
  done
  git -C $R checkout -- .
  echo "$res $f $i $desc" >> $OUT/phase2.txt
done < $OUT/survivors.txt
echo done >> $OUT/phase2.txt
