#!/bin/bash
# Re-applies behaviour-preserving changes (benign/*) to a scratch worktree of /repo and runs quick checks of a
# snapshot of /verif against it; every check must exit 0.
#   tools/rebenign.sh B5-A B5-B            checks recorded in each meta.json
#   PROPS="C04 C05" tools/rebenign.sh B5-A  only these checks
cd "$(dirname "$0")/.."
SRC=$PWD
export GOFLAGS=-mod=mod GOPROXY=off GOSUMDB=off GOTOOLCHAIN=local
R=$(mktemp -d /var/tmp/reben-wt-XXXXXX); rmdir $R
git -C /repo worktree add -q --detach $R HEAD || exit 2
V=$(mktemp -d /var/tmp/reben-verif-XXXXXX)
rsync -a --exclude .git --exclude replays --exclude evidence --exclude seeded $SRC/ $V/
mkdir -p $V/evidence $V/replays
sed -i "s|=> /repo\$|=> $R|" $V/go.mod
trap 'git -C /repo worktree remove --force $R; git -C /repo worktree prune; rm -rf $V' EXIT
export VERIF_DIR=$V VERIF_REPO=$R
for n in "$@"; do
  d=$SRC/benign/$n
  props=${PROPS:-$(python3 -c "import json;print(' '.join(json.load(open('$d/meta.json'))['quick_checks_run']))")}
  git -C $R apply $d/patch.diff || { echo "$n: PATCH-DOES-NOT-APPLY"; continue; }
  res=""
  for p in $props; do
    out=$(cd $V && ./bin/vcheck $p --tier quick 2>&1); code=$?
    res="$res $p=$code"
    [ $code -ne 0 ] && echo "$out" | grep -E "VIOLATION|signature|HARNESS" | head -4
  done
  git -C $R checkout -- .
  echo "$n:$res"
done
