// Package refdb is the boring reference model: a map of refs and a map of log
// entries, with overlay (newest table wins), transaction application, reflog
// expiry, the dir/file conflict rule and RefsFor. It leaves out everything
// implementation-specific.
package refdb

import (
	"bytes"
	"encoding/hex"
	"fmt"
	"sort"
	"strings"

	"verif/model/fmtspec"
)

type Ref = fmtspec.Ref
type Log = fmtspec.Log

type LogKey struct {
	Name string
	UI   uint64
}

// DB holds the newest record per key, tombstones included.
type DB struct {
	Refs map[string]Ref
	Logs map[LogKey]Log
}

func New() *DB { return &DB{Refs: map[string]Ref{}, Logs: map[LogKey]Log{}} }

func (d *DB) Clone() *DB {
	n := New()
	for k, v := range d.Refs {
		n.Refs[k] = v
	}
	for k, v := range d.Logs {
		n.Logs[k] = v
	}
	return n
}

// PutRef / PutLog apply one record (newest wins).
func (d *DB) PutRef(r Ref) { d.Refs[r.Name] = r }
func (d *DB) PutLog(l Log) { d.Logs[LogKey{l.Name, l.UpdateIndex}] = l }

// Overlay builds the raw merged database of tables given oldest first.
func Overlay(tabs []*fmtspec.Table) *DB {
	d := New()
	for _, t := range tabs {
		for _, r := range t.Refs {
			d.PutRef(r)
		}
		for _, l := range t.Logs {
			d.PutLog(l)
		}
	}
	return d
}

// DropTombstones removes deletion records (what a stack's reader sees).
func (d *DB) DropTombstones() *DB {
	n := New()
	for k, v := range d.Refs {
		if v.Kind != 0 {
			n.Refs[k] = v
		}
	}
	for k, v := range d.Logs {
		if !v.Deletion {
			n.Logs[k] = v
		}
	}
	return n
}

// Expire applies a reflog expiry configuration to live log entries.
func (d *DB) Expire(time, maxUI, minUI uint64) *DB {
	n := d.Clone()
	for k, l := range d.Logs {
		if l.Deletion {
			continue
		}
		if (time > 0 && l.Time < time) || (maxUI != 0 && l.UpdateIndex > maxUI) || (minUI != 0 && l.UpdateIndex < minUI) {
			delete(n.Logs, k)
		}
	}
	return n
}

func hx(b []byte) string {
	if b == nil {
		return "-"
	}
	return hex.EncodeToString(b)
}

// RefString is the canonical text of a ref record; every comparison in the
// harnesses goes through it.
func RefString(name string, ui uint64, value, peeled []byte, symref string) string {
	kind := 0
	switch {
	case len(value) > 0 && len(peeled) > 0:
		kind = 2
	case len(value) > 0:
		kind = 1
	case symref != "":
		kind = 3
	}
	switch kind {
	case 0:
		return fmt.Sprintf("ref %q @%d del", name, ui)
	case 1:
		return fmt.Sprintf("ref %q @%d val %s", name, ui, hx(value))
	case 2:
		return fmt.Sprintf("ref %q @%d val %s peeled %s", name, ui, hx(value), hx(peeled))
	}
	return fmt.Sprintf("ref %q @%d sym %q", name, ui, symref)
}

func RefCanon(r Ref) string { return RefString(r.Name, r.UpdateIndex, r.Value, r.Peeled, r.Symref) }

// LogString is the canonical text of a log record. Absent hashes are written as
// all-zero of hashSize (documented normalisation).
func LogString(name string, ui uint64, deletion bool, old, new []byte, who, email string, time uint64, tz int16, msg string, hashSize int) string {
	if deletion {
		return fmt.Sprintf("log %q @%d del", name, ui)
	}
	if old == nil {
		old = make([]byte, hashSize)
	}
	if new == nil {
		new = make([]byte, hashSize)
	}
	return fmt.Sprintf("log %q @%d %s..%s %q <%q> %d %d %q", name, ui, hx(old), hx(new), who, email, time, tz, msg)
}

func LogCanon(l Log, hashSize int) string {
	return LogString(l.Name, l.UpdateIndex, l.Deletion, l.Old, l.New, l.Who, l.Email, l.Time, l.TZ, l.Message, hashSize)
}

// SortedRefs returns the refs in name order.
func (d *DB) SortedRefs() []Ref {
	ks := make([]string, 0, len(d.Refs))
	for k := range d.Refs {
		ks = append(ks, k)
	}
	sort.Strings(ks)
	out := make([]Ref, len(ks))
	for i, k := range ks {
		out[i] = d.Refs[k]
	}
	return out
}

// SortedLogs returns the logs in key order: name ascending, update index descending.
func (d *DB) SortedLogs() []Log {
	ks := make([]LogKey, 0, len(d.Logs))
	for k := range d.Logs {
		ks = append(ks, k)
	}
	sort.Slice(ks, func(i, j int) bool {
		if ks[i].Name != ks[j].Name {
			// key order is byte order of name + NUL + reversed index
			return ks[i].Name+"\x00" < ks[j].Name+"\x00"
		}
		return ks[i].UI > ks[j].UI
	})
	out := make([]Log, len(ks))
	for i, k := range ks {
		out[i] = d.Logs[k]
	}
	return out
}

// Canon returns the canonical text of the whole database.
func (d *DB) Canon(hashSize int) (refs, logs []string) {
	for _, r := range d.SortedRefs() {
		refs = append(refs, RefCanon(r))
	}
	for _, l := range d.SortedLogs() {
		logs = append(logs, LogCanon(l, hashSize))
	}
	return
}

func (d *DB) CanonString(hashSize int) string {
	r, l := d.Canon(hashSize)
	return strings.Join(r, "\n") + "\n--\n" + strings.Join(l, "\n")
}

// RefsFor returns the live refs whose value or peeled value equals oid, in name order.
func (d *DB) RefsFor(oid []byte) []Ref {
	var out []Ref
	for _, r := range d.SortedRefs() {
		if r.Kind == 0 {
			continue
		}
		if bytes.Equal(r.Value, oid) || bytes.Equal(r.Peeled, oid) {
			out = append(out, r)
		}
	}
	return out
}

// ValidName is the component rule of C12.
func ValidName(n string) bool {
	for _, c := range strings.Split(n, "/") {
		if c == "" || c == "." || c == ".." {
			return false
		}
	}
	return true
}

// ConflictFree reports whether no live name is a directory prefix of another.
func ConflictFree(live map[string]bool) bool {
	for a := range live {
		for b := range live {
			if a != b && strings.HasPrefix(b, a+"/") {
				return false
			}
		}
	}
	return true
}
