// Package tablegen enumerates the bounded table families of DESIGN.md 5.1.
// Every member is generated; nothing is drawn at random.
package tablegen

import (
	"crypto/sha256"
	"fmt"
	"sort"
	"strings"

	"verif/model/refdb"
)

// Cfg mirrors reftable.Config without importing the code under test.
type Cfg struct {
	SHA256    bool
	Unaligned bool
	SkipObj   bool
	ExactMsg  bool
	BlockSize uint32 // 0: default
	Restart   int    // 0: default
}

func (c Cfg) HashSize() int {
	if c.SHA256 {
		return 32
	}
	return 20
}

func (c Cfg) String() string {
	h := "sha1"
	if c.SHA256 {
		h = "s256"
	}
	return fmt.Sprintf("%s,unaligned=%v,skipobj=%v,exact=%v,bs=%d,ri=%d", h, c.Unaligned, c.SkipObj, c.ExactMsg, c.BlockSize, c.Restart)
}

// Case is one table to write.
type Case struct {
	Family   string
	Cfg      Cfg
	Min, Max uint64
	Refs     []refdb.Ref
	Logs     []refdb.Log
	Note     string
}

func (c *Case) ID() string {
	return fmt.Sprintf("%s[%s;min=%d,max=%d;%s]", c.Family, c.Cfg, c.Min, c.Max, c.Note)
}

// Oid returns a deterministic object id.
func Oid(label string, size int) []byte {
	s := sha256.Sum256([]byte(label))
	out := make([]byte, size)
	copy(out, s[:])
	return out
}

// Keystream returns n incompressible bytes (SHA-256 in counter mode) without NUL or newline.
func Keystream(seed string, n int) string {
	var sb strings.Builder
	for i := 0; sb.Len() < n; i++ {
		s := sha256.Sum256([]byte(fmt.Sprintf("%s/%d", seed, i)))
		for _, b := range s {
			if b == 0 || b == '\n' || b == ' ' || b == '\t' || b == '\r' || b == 0x0b || b == 0x0c || b == 0x85 || b == 0xa0 {
				b = 'x'
			}
			sb.WriteByte(b)
		}
	}
	return sb.String()[:n]
}

// ---------------------------------------------------------------- configuration grid

func AllCfgs(blockSizes []uint32, restarts []int) []Cfg {
	var out []Cfg
	for _, sha := range []bool{false, true} {
		for _, un := range []bool{false, true} {
			for _, so := range []bool{false, true} {
				for _, ex := range []bool{false, true} {
					for _, bs := range blockSizes {
						for _, ri := range restarts {
							out = append(out, Cfg{sha, un, so, ex, bs, ri})
						}
					}
				}
			}
		}
	}
	return out
}

var FullBlockSizes = []uint32{64, 96, 128, 256, 512, 0}
var FullRestarts = []int{1, 2, 3, 0}

// QuickCfgs: every single-dimension variation of the default plus a pairwise-covering set.
func QuickCfgs() []Cfg {
	def := Cfg{}
	seen := map[Cfg]bool{}
	var out []Cfg
	add := func(c Cfg) {
		if !seen[c] {
			seen[c] = true
			out = append(out, c)
		}
	}
	add(def)
	for _, bs := range FullBlockSizes {
		c := def
		c.BlockSize = bs
		add(c)
	}
	for _, ri := range FullRestarts {
		c := def
		c.Restart = ri
		add(c)
	}
	// unusual values: a restart interval larger than any block, blocks above 64 KiB
	add(Cfg{Restart: 1000})
	add(Cfg{BlockSize: 1 << 17, Restart: 1})
	add(Cfg{BlockSize: 1 << 17, Unaligned: true, SHA256: true})
	for i := 0; i < 4; i++ {
		c := def
		switch i {
		case 0:
			c.SHA256 = true
		case 1:
			c.Unaligned = true
		case 2:
			c.SkipObj = true
		case 3:
			c.ExactMsg = true
		}
		add(c)
	}
	// greedy pairwise cover over the six dimensions
	all := AllCfgs(FullBlockSizes, FullRestarts)
	type pair struct{ a, b, va, vb int }
	val := func(c Cfg, d int) int {
		switch d {
		case 0:
			return b2i(c.SHA256)
		case 1:
			return b2i(c.Unaligned)
		case 2:
			return b2i(c.SkipObj)
		case 3:
			return b2i(c.ExactMsg)
		case 4:
			return int(c.BlockSize)
		}
		return c.Restart
	}
	need := map[pair]bool{}
	for _, c := range all {
		for a := 0; a < 6; a++ {
			for b := a + 1; b < 6; b++ {
				need[pair{a, b, val(c, a), val(c, b)}] = true
			}
		}
	}
	cover := func(c Cfg) []pair {
		var ps []pair
		for a := 0; a < 6; a++ {
			for b := a + 1; b < 6; b++ {
				p := pair{a, b, val(c, a), val(c, b)}
				if need[p] {
					ps = append(ps, p)
				}
			}
		}
		return ps
	}
	for _, c := range out {
		for _, p := range cover(c) {
			delete(need, p)
		}
	}
	for len(need) > 0 {
		best, bestN := all[0], -1
		for _, c := range all {
			if n := len(cover(c)); n > bestN {
				best, bestN = c, n
			}
		}
		for _, p := range cover(best) {
			delete(need, p)
		}
		add(best)
	}
	return out
}

func b2i(b bool) int {
	if b {
		return 1
	}
	return 0
}

// ---------------------------------------------------------------- F1: tiny, fully exhaustive

// the last two differ in a UTF-8 continuation byte only (é\xff / ê): byte-wise, not rune-wise, prefix compression
var F1Names = []string{"a", "a/b", "ab", "b", "\xc3\xa9\xff", "\xc3\xaa"}

func subsets(n, maxK int) [][]int {
	var out [][]int
	var rec func(start int, cur []int)
	rec = func(start int, cur []int) {
		if len(cur) > 0 {
			out = append(out, append([]int{}, cur...))
		}
		if len(cur) == maxK {
			return
		}
		for i := start; i < n; i++ {
			rec(i+1, append(cur, i))
		}
	}
	rec(0, nil)
	return out
}

func mkRef(name string, kind int, ui uint64, hs int, tag string) refdb.Ref {
	r := refdb.Ref{Name: name, Kind: kind, UpdateIndex: ui}
	switch kind {
	case 1:
		r.Value = Oid("v"+tag+name, hs)
	case 2:
		r.Value = Oid("v"+tag+name, hs)
		r.Peeled = Oid("p"+tag+name, hs)
	case 3:
		r.Symref = "refs/target/" + tag + name
	}
	return r
}

func mkLog(name string, ui uint64, deletion bool, msg string, hs int) refdb.Log {
	l := refdb.Log{Name: name, UpdateIndex: ui, Deletion: deletion}
	if !deletion {
		l.Old = Oid("o"+name, hs)
		l.New = Oid(fmt.Sprintf("n%s%d", name, ui), hs)
		l.Who = "A U Thor"
		l.Email = "a@example.com"
		l.Time = 1577123507 + ui
		l.TZ = -120
		l.Message = msg
	}
	return l
}

// F1RefSets enumerates every sorted subset of <=3 names x kind vector x update index in {min,max}.
func F1RefSets(min, max uint64, hs int) [][]refdb.Ref {
	var out [][]refdb.Ref
	names := append([]string{}, F1Names...)
	sort.Strings(names)
	for _, ss := range subsets(len(names), 3) {
		k := len(ss)
		nk := 1
		for i := 0; i < k; i++ {
			nk *= 4 * 2
		}
		for code := 0; code < nk; code++ {
			c := code
			var refs []refdb.Ref
			dup := false
			for _, idx := range ss {
				kind := c % 4
				c /= 4
				ui := min
				if c%2 == 1 {
					ui = max
					dup = dup || min == max
				}
				c /= 2
				refs = append(refs, mkRef(names[idx], kind, ui, hs, ""))
			}
			if dup {
				continue // min == max: the update-index bit is redundant
			}
			out = append(out, refs)
		}
	}
	return out
}

var F1Msgs = []string{"", "m", "m\n", " m "}

// F1LogSets enumerates every sorted set of <=3 log keys from 2 names x 2 indices x {entry x message, deletion}.
func F1LogSets(min, max uint64, hs int) [][]refdb.Log {
	type key struct {
		name string
		ui   uint64
	}
	uis := []uint64{max, min}
	if min == max {
		uis = []uint64{max + 1, max} // still two distinct log indices
	}
	var keys []key
	for _, n := range []string{"a", "a/b"} {
		for _, u := range uis { // descending update index = ascending key
			keys = append(keys, key{n, u})
		}
	}
	var out [][]refdb.Log
	for _, ss := range subsets(len(keys), 3) {
		k := len(ss)
		const nv = 12
		nk := 1
		for i := 0; i < k; i++ {
			nk *= nv
		}
		for code := 0; code < nk; code++ {
			c := code
			var logs []refdb.Log
			for _, idx := range ss {
				v := c % nv
				c /= nv
				switch {
				case v == 4:
					logs = append(logs, mkLog(keys[idx].name, keys[idx].ui, true, "", hs))
				case v < 4:
					logs = append(logs, mkLog(keys[idx].name, keys[idx].ui, false, F1Msgs[v], hs))
				default:
					// sparse entries: exactly one field set, everything else empty
					l := refdb.Log{Name: keys[idx].name, UpdateIndex: keys[idx].ui}
					switch v {
					case 5:
						l.Time = 1577123507
					case 6:
						l.TZ = -330
					case 7:
						l.Who = "n"
					case 8:
						l.Email = "e"
					case 9:
						l.New = Oid("only-new", hs)
					case 10:
						l.Old = Oid("only-old", hs)
					case 11:
						// the "this reflog exists" marker: an update entry whose hashes are explicitly all-zero and
						// whose other fields are empty - not a deletion
						l.Old, l.New = make([]byte, hs), make([]byte, hs)
					}
					logs = append(logs, l)
				}
			}
			out = append(out, logs)
		}
	}
	return out
}

// F1 yields the tiny family for one configuration and one (min,max).
func F1(cfg Cfg, min, max uint64, stride int, yield0 func(*Case)) {
	hs := cfg.HashSize()
	// stride > 1 keeps every stride-th member (used for the configurations beyond the fully enumerated ones)
	cnt := 0
	yield := func(c *Case) {
		cnt++
		if stride <= 1 || cnt%stride == 0 {
			yield0(c)
		}
	}
	refSets := F1RefSets(min, max, hs)
	logSets := F1LogSets(min, max, hs)
	fixedLogs := logSets[len(logSets)/2]
	fixedRefs := refSets[len(refSets)/3]
	for i, rs := range refSets {
		yield(&Case{Family: "F1", Cfg: cfg, Min: min, Max: max, Refs: rs, Note: fmt.Sprintf("refs#%d", i)})
		yield(&Case{Family: "F1", Cfg: cfg, Min: min, Max: max, Refs: rs, Logs: fixedLogs, Note: fmt.Sprintf("refs#%d+logs", i)})
	}
	for i, ls := range logSets {
		yield(&Case{Family: "F1", Cfg: cfg, Min: min, Max: max, Logs: ls, Note: fmt.Sprintf("logs#%d", i)})
		yield(&Case{Family: "F1", Cfg: cfg, Min: min, Max: max, Refs: fixedRefs, Logs: ls, Note: fmt.Sprintf("refs+logs#%d", i)})
	}
}

var Limits = [][2]uint64{{0, 0}, {1, 1}, {5, 9}, {1 << 32, 1<<32 + 3}}

// ---------------------------------------------------------------- F2: block structure

var F2Counts = []int{1, 2, 3, 4, 5, 6, 7, 8, 9, 10, 11, 12, 16, 24, 32, 48, 64, 120}

// F2Names returns n sorted names in the given style.
func F2Names(n int, style string, bs uint32) []string {
	var out []string
	for i := 0; i < n; i++ {
		switch style {
		case "shared":
			out = append(out, fmt.Sprintf("refs/heads/branch%04d", i))
		case "distinct":
			// no two consecutive names share a first byte: every record is a restart
			out = append(out, fmt.Sprintf("%c%c%02d", 'A'+byte(i%50), 'a'+byte((i/50)%26), i%97))
		case "long":
			l := int(bs) / 3
			if bs == 0 || l > 120 {
				l = 120
			}
			if l < 12 {
				l = 12
			}
			out = append(out, fmt.Sprintf("refs/%04d/", i)+strings.Repeat("n", l-10))
		}
	}
	sort.Strings(out)
	return out
}

// F2 yields block-structure tables: n records, three name styles, refs only / logs only / both.
func F2(cfg Cfg, counts []int, yield func(*Case)) { F2At(cfg, counts, 3, yield) }

// F2At is F2 with the table's minimum update index at min (the maximum is min+4).
func F2At(cfg Cfg, counts []int, min uint64, yield func(*Case)) {
	hs := cfg.HashSize()
	max := min + 4
	for _, n := range counts {
		for _, style := range []string{"shared", "distinct", "long"} {
			names := F2Names(n, style, cfg.BlockSize)
			var refs []refdb.Ref
			var logs []refdb.Log
			for i, nm := range names {
				kinds := []int{1, 2, 3, 1, 0, 1}
				refs = append(refs, mkRef(nm, kinds[i%len(kinds)], min+uint64(i%5), hs, ""))
			}
			for i, nm := range names {
				// two entries for every third ref, otherwise one; newest first
				if i%3 == 0 {
					logs = append(logs, mkLog(nm, max, false, fmt.Sprintf("update %d", i), hs))
				}
				logs = append(logs, mkLog(nm, min, i%7 == 6, fmt.Sprintf("create %d", i), hs))
			}
			note := fmt.Sprintf("n=%d,%s", n, style)
			yield(&Case{Family: "F2", Cfg: cfg, Min: min, Max: max, Refs: refs, Note: note + ",refs"})
			yield(&Case{Family: "F2", Cfg: cfg, Min: min, Max: max, Logs: logs, Note: note + ",logs"})
			yield(&Case{Family: "F2", Cfg: cfg, Min: min, Max: max, Refs: refs, Logs: logs, Note: note + ",both"})
			if style == "shared" {
				// the writer does not tie log update indices to the header limits: entries above the declared maximum
				yield(&Case{Family: "F2", Cfg: cfg, Min: min, Max: min, Logs: logs, Note: note + ",logs-above-limits"})
			}
		}
	}
}

// ---------------------------------------------------------------- F5: restart-table saturation

// F5 yields one table whose single ref block holds more records than a restart table can
// address (65535): huge block size, restart interval 1.
func F5(yield func(*Case)) {
	for _, n := range []int{65534, 65535, 65536, 66000} {
		cfg := Cfg{BlockSize: 1 << 22, Restart: 1}
		var refs []refdb.Ref
		for i := 0; i < n; i++ {
			refs = append(refs, refdb.Ref{Name: fmt.Sprintf("%05d", i), Kind: 3, UpdateIndex: 1, Symref: "t"})
		}
		yield(&Case{Family: "F5", Cfg: cfg, Min: 1, Max: 1, Refs: refs, Note: fmt.Sprintf("n=%d,one-block,restart-interval-1", n)})
	}
}

// ---------------------------------------------------------------- F3: fill sweep

// F3 yields, for one configuration, tables whose variable-length field takes every length
// from 0 to limit: ref name, symref target, log message (compressible and incompressible).
func F3(cfg Cfg, limit int, yield func(*Case)) {
	hs := cfg.HashSize()
	min, max := uint64(1), uint64(2)
	pre := []refdb.Ref{mkRef("a0", 1, min, hs, ""), mkRef("a1", 3, min, hs, "")}
	post := mkRef("zz", 1, max, hs, "")
	for l := 0; l <= limit; l++ {
		// (a) ref name of length l+1 between the fixed refs
		name := "m" + strings.Repeat("n", l)
		yield(&Case{Family: "F3", Cfg: cfg, Min: min, Max: max,
			Refs: append(append(append([]refdb.Ref{}, pre...), mkRef(name, 1, max, hs, "")), post), Note: fmt.Sprintf("name,len=%d", l+1)})
		// (b) symref target of length l
		sr := refdb.Ref{Name: "m", Kind: 3, UpdateIndex: max, Symref: "t" + strings.Repeat("s", l)}
		yield(&Case{Family: "F3", Cfg: cfg, Min: min, Max: max,
			Refs: append(append(append([]refdb.Ref{}, pre...), sr), post), Note: fmt.Sprintf("symref,len=%d", l+1)})
		// (c) log message, compressible; (d) incompressible. Three log records so that a block boundary can fall after the long one.
		for _, kind := range []string{"zeros", "keystream"} {
			msg := strings.Repeat("z", l)
			if kind == "keystream" {
				msg = Keystream("f3", l)
			}
			logs := []refdb.Log{mkLog("a0", max, false, "first", hs), mkLog("m", max, false, msg, hs), mkLog("zz", max, false, "last", hs)}
			yield(&Case{Family: "F3", Cfg: cfg, Min: min, Max: max, Refs: append([]refdb.Ref{}, pre...), Logs: logs, Note: fmt.Sprintf("logmsg-%s,len=%d", kind, l)})
			yield(&Case{Family: "F3", Cfg: cfg, Min: min, Max: max, Logs: logs, Note: fmt.Sprintf("logmsg-%s-only,len=%d", kind, l)})
		}
	}
}

// ---------------------------------------------------------------- F4: object index

// F4 yields tables for RefsFor: a few object ids sharing prefixes, referenced from many refs.
func F4(cfg Cfg, yield func(*Case)) {
	hs := cfg.HashSize()
	// object ids: o[0], o[1] share `share` leading bytes with o[0]; o[2] independent
	for _, share := range []int{0, 1, 19} {
		base := Oid("base", hs)
		o1 := append([]byte{}, Oid("other", hs)...)
		copy(o1, base[:share])
		if o1[share] == base[share] {
			o1[share] ^= 0x55
		}
		oids := [][]byte{base, o1, Oid("third", hs)}
		for _, n := range []int{1, 2, 5, 9, 16, 40, 80, 160} {
			for _, min := range []uint64{0, 5} {
				var refs []refdb.Ref
				for i := 0; i < n; i++ {
					r := refdb.Ref{Name: fmt.Sprintf("refs/tags/v%03d", i), UpdateIndex: min + uint64(i%3)}
					switch i % 5 {
					case 0:
						r.Kind, r.Value = 1, oids[0]
					case 1:
						r.Kind, r.Value, r.Peeled = 2, oids[1], oids[0]
					case 2:
						r.Kind, r.Value = 1, oids[2]
					case 3:
						r.Kind, r.Symref = 3, "refs/tags/v000"
					case 4:
						r.Kind, r.Value, r.Peeled = 2, Oid(fmt.Sprintf("uniq%d", i), hs), oids[1]
					}
					refs = append(refs, r)
				}
				yield(&Case{Family: "F4", Cfg: cfg, Min: min, Max: min + 2, Refs: refs, Note: fmt.Sprintf("share=%d,n=%d", share, n)})
				if n >= 5 {
					// a run of ADJACENT refs with the same plain value, crossing block boundaries
					var run []refdb.Ref
					for i := 0; i < n; i++ {
						r := refdb.Ref{Name: fmt.Sprintf("refs/tags/v%03d", i), UpdateIndex: min + uint64(i%3), Kind: 1}
						switch {
						case i >= n/4 && i < 3*n/4:
							r.Value = oids[0]
						case i == 0:
							r.Value = oids[1]
						default:
							r.Value = Oid(fmt.Sprintf("uniq%d", i), hs)
						}
						run = append(run, r)
					}
					yield(&Case{Family: "F4", Cfg: cfg, Min: min, Max: min + 2, Refs: run, Note: fmt.Sprintf("run,share=%d,n=%d", share, n)})
				}
			}
		}
	}
}

// F4Fan yields tables in which ONE object id is the plain value of a run of adjacent refs whose length is swept
// (1, 1+step, … up to n-10) so that the object lies in every possible number of ref blocks - in particular in
// exactly 7 and exactly 8, where the obj record switches from the 3-bit count to an explicit one. The other refs
// have unique values, two refs in the first and last block share a second id.
func F4Fan(cfg Cfg, n, step int, yield func(*Case)) {
	hs := cfg.HashSize()
	shared, second := Oid("base", hs), Oid("other", hs)
	for L := 1; L <= n-10; L += step {
		var refs []refdb.Ref
		for i := 0; i < n; i++ {
			r := refdb.Ref{Name: fmt.Sprintf("refs/tags/v%04d", i), UpdateIndex: 5 + uint64(i%2), Kind: 1}
			switch {
			case i >= 5 && i < 5+L:
				r.Value = shared
			case i == 0 || i == n-1:
				r.Value = second
			default:
				r.Value = Oid(fmt.Sprintf("uniq%d", i), hs)
			}
			refs = append(refs, r)
		}
		yield(&Case{Family: "F4", Cfg: cfg, Min: 5, Max: 6, Refs: refs, Note: fmt.Sprintf("fan,L=%d,n=%d", L, n)})
	}
}

// F4Oids returns the object ids worth querying for a case: every id occurring, one absent id,
// and one that shares the abbreviation with a present id but differs later.
func F4Oids(c *Case) [][]byte {
	hs := c.Cfg.HashSize()
	seen := map[string]bool{}
	var out [][]byte
	for _, r := range c.Refs {
		for _, v := range [][]byte{r.Value, r.Peeled} {
			if v != nil && !seen[string(v)] {
				seen[string(v)] = true
				out = append(out, v)
			}
		}
	}
	out = append(out, Oid("absent", hs))
	// below every id and above every id (the lookup runs off either end of the object index)
	lo, hi := make([]byte, hs), make([]byte, hs)
	for i := range hi {
		hi[i] = 0xff
	}
	out = append(out, lo, hi)
	if len(out) > 1 {
		near := append([]byte{}, out[0]...)
		near[hs-1] ^= 1
		out = append(out, near)
	}
	return out
}

// ---------------------------------------------------------------- normalisation (C01)

// Normalise returns the records a reader must return for what was written.
func Normalise(c *Case) (refs []string, logs []string) {
	hs := c.Cfg.HashSize()
	for _, r := range c.Refs {
		refs = append(refs, refdb.RefCanon(r))
	}
	for _, l := range c.Logs {
		n := l
		if !l.Deletion && !c.Cfg.ExactMsg {
			n.Message = strings.TrimSpace(l.Message) + "\n"
		}
		logs = append(logs, refdb.LogCanon(n, hs))
	}
	return
}
