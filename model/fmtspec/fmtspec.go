// Package fmtspec is an independent decoder and validator of the reftable file
// format (v1 and v2), written from the format description in DESIGN.md
// Appendix A. It shares no code with the repository under test; the only
// library it leans on is the standard compress/zlib and hash/crc32.
package fmtspec

import (
	"bytes"
	"compress/zlib"
	"encoding/binary"
	"fmt"
	"hash/crc32"
	"io"
)

type Ref struct {
	Name        string
	UpdateIndex uint64
	Kind        int // 0 deletion, 1 value, 2 value+peeled, 3 symref
	Value       []byte
	Peeled      []byte
	Symref      string
	Block       uint64 // offset of the block holding it
}

type Log struct {
	Name        string
	UpdateIndex uint64
	Deletion    bool
	Old, New    []byte
	Who, Email  string
	Time        uint64
	TZ          int16
	Message     string
}

type Obj struct {
	Prefix    []byte
	Positions []uint64 // nil: omitted (scan)
}

type Block struct {
	Off      uint64
	Typ      byte
	Len      uint32 // declared length (inflated for log blocks), counted from region start
	DiskSize uint64 // bytes occupied on disk excluding padding
	Padding  uint64
	FirstKey string
	LastKey  string
	Records  int
	Restarts int
}

type Table struct {
	Version   int
	BlockSize uint32
	Min, Max  uint64
	HashID    string
	HashSize  int
	Refs      []Ref
	Logs      []Log
	Objs      []Obj
	ObjIDLen  int
	Blocks    []Block
	// Index levels per section ('r','o','g'): number of levels
	IndexLevels map[byte]int
	Unaligned   bool // at least one non-log→non-log boundary is unpadded
	Empty       bool
}

type idxRec struct {
	key string
	off uint64
}

func getVarint(b []byte) (uint64, int, error) {
	if len(b) == 0 {
		return 0, 0, fmt.Errorf("varint: out of bytes")
	}
	p := 0
	v := uint64(b[0] & 0x7f)
	for b[p]&0x80 != 0 {
		p++
		if p >= len(b) {
			return 0, 0, fmt.Errorf("varint: truncated")
		}
		if p > 9 {
			return 0, 0, fmt.Errorf("varint: too long")
		}
		v = ((v + 1) << 7) | uint64(b[p]&0x7f)
	}
	return v, p + 1, nil
}

func u24(b []byte) uint32 { return uint32(b[0])<<16 | uint32(b[1])<<8 | uint32(b[2]) }

type errf struct{ s string }

func (e *errf) Error() string { return e.s }

func bad(format string, a ...interface{}) error {
	return &errf{"fmtspec: " + fmt.Sprintf(format, a...)}
}

// Decode validates b as a complete reftable and returns its contents.
func Decode(b []byte) (*Table, error) {
	t := &Table{IndexLevels: map[byte]int{}}
	if len(b) < 24+68 {
		return nil, bad("file too short (%d bytes)", len(b))
	}
	if string(b[:4]) != "REFT" {
		return nil, bad("bad magic %q", b[:4])
	}
	t.Version = int(b[4])
	hs, fs := 24, 68
	switch t.Version {
	case 1:
		t.HashID = "sha1"
	case 2:
		hs, fs = 28, 72
	default:
		return nil, bad("unsupported version %d", t.Version)
	}
	if len(b) < hs+fs {
		return nil, bad("file too short for v%d (%d bytes)", t.Version, len(b))
	}
	t.BlockSize = u24(b[5:8])
	t.Min = binary.BigEndian.Uint64(b[8:16])
	t.Max = binary.BigEndian.Uint64(b[16:24])
	if t.Version == 2 {
		t.HashID = string(b[24:28])
	}
	switch t.HashID {
	case "sha1":
		t.HashSize = 20
	case "s256":
		t.HashSize = 32
	default:
		return nil, bad("unknown hash id %q", t.HashID)
	}
	if t.Min > t.Max {
		return nil, bad("min update index %d > max %d", t.Min, t.Max)
	}
	foot := b[len(b)-fs:]
	if !bytes.Equal(foot[:hs], b[:hs]) {
		return nil, bad("footer does not repeat the header")
	}
	if got, want := binary.BigEndian.Uint32(foot[fs-4:]), crc32.ChecksumIEEE(foot[:fs-4]); got != want {
		return nil, bad("footer CRC %08x, want %08x", got, want)
	}
	refIdx := binary.BigEndian.Uint64(foot[hs:])
	objWord := binary.BigEndian.Uint64(foot[hs+8:])
	objPos := objWord >> 5
	t.ObjIDLen = int(objWord & 31)
	objIdx := binary.BigEndian.Uint64(foot[hs+16:])
	logPos := binary.BigEndian.Uint64(foot[hs+24:])
	logIdx := binary.BigEndian.Uint64(foot[hs+32:])

	body := b[:len(b)-fs]
	if len(body) == hs {
		t.Empty = true
		if refIdx|objPos|objIdx|logPos|logIdx != 0 {
			return nil, bad("empty table with non-zero section positions")
		}
		return t, nil
	}

	// ---- walk the blocks
	type sect struct {
		typ    byte
		data   []int // indices into t.Blocks
		index  []int
		idxRec [][]idxRec // per index block
	}
	var sects []*sect
	var cur *sect
	idxRecs := map[int][]idxRec{}
	off := uint64(0)
	var lastKey string
	var lastTyp byte
	nonLogBoundariesPadded, nonLogBoundariesUnpadded := 0, 0
	for off < uint64(len(body)) {
		region := body[off:]
		h := 0
		if off == 0 {
			h = hs
		}
		if len(region) < h+4+2 {
			return nil, bad("block at %d: truncated header", off)
		}
		typ := region[h]
		if typ != 'r' && typ != 'o' && typ != 'g' && typ != 'i' {
			return nil, bad("block at %d: unknown type 0x%02x", off, typ)
		}
		L := u24(region[h+1:])
		if int(L) < h+4+2 {
			return nil, bad("block at %d: declared length %d too small", off, L)
		}
		var content []byte // region as if uncompressed: [0,L)
		var disk uint64
		if typ == 'g' {
			br := bytes.NewReader(region[h+4:])
			zr, err := zlib.NewReader(br)
			if err != nil {
				return nil, bad("log block at %d: zlib header: %v", off, err)
			}
			infl, err := io.ReadAll(zr)
			if err != nil {
				return nil, bad("log block at %d: inflate: %v", off, err)
			}
			if len(infl) != int(L)-h-4 {
				return nil, bad("log block at %d: inflated %d bytes, header declares %d", off, len(infl), int(L)-h-4)
			}
			disk = uint64(h+4) + uint64(len(region[h+4:])-br.Len())
			content = append(append([]byte{}, region[:h+4]...), infl...)
		} else {
			if int(L) > len(region) {
				return nil, bad("block at %d: declared length %d exceeds file", off, L)
			}
			if t.BlockSize != 0 && L > t.BlockSize {
				return nil, bad("block at %d: length %d exceeds block size %d", off, L, t.BlockSize)
			}
			disk = uint64(L)
			content = region[:L]
		}
		blk := Block{Off: off, Typ: typ, Len: L, DiskSize: disk}

		// restart table
		rc := int(binary.BigEndian.Uint16(content[len(content)-2:]))
		if rc == 0 {
			return nil, bad("block at %d: restart count 0", off)
		}
		rstart := len(content) - 2 - 3*rc
		if rstart < h+4 {
			return nil, bad("block at %d: restart table (%d entries) larger than block", off, rc)
		}
		restarts := map[uint32]bool{}
		var prevR uint32
		for i := 0; i < rc; i++ {
			r := u24(content[rstart+3*i:])
			if i > 0 && r <= prevR {
				return nil, bad("block at %d: restart offsets not ascending", off)
			}
			prevR = r
			restarts[r] = true
		}
		if u24(content[rstart:]) != uint32(h+4) {
			return nil, bad("block at %d: first restart %d is not the first record (%d)", off, u24(content[rstart:]), h+4)
		}
		blk.Restarts = rc

		// section bookkeeping
		if typ == 'i' {
			if cur == nil {
				return nil, bad("index block at %d before any section", off)
			}
			// ordering across index blocks is checked per level below
			lastKey = ""
		} else {
			if cur == nil || cur.typ != typ {
				order := map[byte]int{'r': 0, 'o': 1, 'g': 2}
				if cur != nil && order[typ] <= order[cur.typ] {
					return nil, bad("block at %d: section %c after section %c", off, typ, cur.typ)
				}
				if typ == 'r' && off != 0 {
					return nil, bad("ref section does not start at offset 0")
				}
				cur = &sect{typ: typ}
				sects = append(sects, cur)
				lastKey = ""
			} else if lastTyp == 'i' {
				return nil, bad("block at %d: %c block after the index of its section", off, typ)
			}
		}

		// records
		pos := h + 4
		prev := ""
		first := true
		var recs []idxRec
		for pos < rstart {
			recOff := pos
			pl, n, err := getVarint(content[pos:rstart])
			if err != nil {
				return nil, bad("block at %d+%d: prefix length: %v", off, pos, err)
			}
			pos += n
			sx, n, err := getVarint(content[pos:rstart])
			if err != nil {
				return nil, bad("block at %d+%d: suffix length: %v", off, pos, err)
			}
			pos += n
			extra := int(sx & 7)
			sl := sx >> 3
			if sl > uint64(rstart-pos) {
				return nil, bad("block at %d+%d: suffix length %d exceeds block", off, recOff, sl)
			}
			if pl > uint64(len(prev)) {
				return nil, bad("block at %d+%d: prefix length %d exceeds previous key", off, recOff, pl)
			}
			if first && pl != 0 {
				return nil, bad("block at %d: first record has prefix length %d", off, pl)
			}
			key := prev[:pl] + string(content[pos:pos+int(sl)])
			pos += int(sl)
			if restarts[uint32(recOff)] {
				if pl != 0 {
					return nil, bad("block at %d: restart at %d points at a record with prefix length %d", off, recOff, pl)
				}
				delete(restarts, uint32(recOff))
			}
			if lastKey != "" && key <= lastKey {
				return nil, bad("block at %d+%d: key %q not above previous key %q", off, recOff, key, lastKey)
			}
			if key == "" {
				return nil, bad("block at %d+%d: empty key", off, recOff)
			}
			lastKey = key
			prev = key
			if first {
				blk.FirstKey = key
			}
			first = false
			blk.LastKey = key
			blk.Records++
			val := content[pos:rstart]
			used := 0
			switch typ {
			case 'r':
				r := Ref{Name: key, Kind: extra, Block: off}
				d, n, err := getVarint(val)
				if err != nil {
					return nil, bad("ref %q: update index: %v", key, err)
				}
				used = n
				r.UpdateIndex = t.Min + d
				if r.UpdateIndex > t.Max || r.UpdateIndex < t.Min {
					return nil, bad("ref %q: update index %d outside header range [%d,%d]", key, r.UpdateIndex, t.Min, t.Max)
				}
				switch extra {
				case 0:
				case 1, 2:
					need := t.HashSize * extra
					if len(val)-used < need {
						return nil, bad("ref %q: value truncated", key)
					}
					r.Value = append([]byte{}, val[used:used+t.HashSize]...)
					if extra == 2 {
						r.Peeled = append([]byte{}, val[used+t.HashSize:used+2*t.HashSize]...)
					}
					used += need
				case 3:
					l, n, err := getVarint(val[used:])
					if err != nil {
						return nil, bad("ref %q: symref length: %v", key, err)
					}
					used += n
					if l > uint64(len(val)-used) {
						return nil, bad("ref %q: symref target truncated", key)
					}
					r.Symref = string(val[used : used+int(l)])
					used += int(l)
				default:
					return nil, bad("ref %q: value type %d", key, extra)
				}
				t.Refs = append(t.Refs, r)
			case 'g':
				if len(key) < 10 || key[len(key)-9] != 0 {
					return nil, bad("log key %q malformed", key)
				}
				lg := Log{Name: key[:len(key)-9]}
				lg.UpdateIndex = ^uint64(0) - binary.BigEndian.Uint64([]byte(key[len(key)-8:]))
				switch extra {
				case 0:
					lg.Deletion = true
				case 1:
					if len(val) < 2*t.HashSize {
						return nil, bad("log %q: hashes truncated", key)
					}
					lg.Old = append([]byte{}, val[:t.HashSize]...)
					lg.New = append([]byte{}, val[t.HashSize:2*t.HashSize]...)
					used = 2 * t.HashSize
					str := func(what string) (string, error) {
						l, n, err := getVarint(val[used:])
						if err != nil {
							return "", bad("log %q: %s length: %v", key, what, err)
						}
						used += n
						if l > uint64(len(val)-used) {
							return "", bad("log %q: %s truncated", key, what)
						}
						s := string(val[used : used+int(l)])
						used += int(l)
						return s, nil
					}
					var err error
					if lg.Who, err = str("name"); err != nil {
						return nil, err
					}
					if lg.Email, err = str("email"); err != nil {
						return nil, err
					}
					tm, n, err := getVarint(val[used:])
					if err != nil {
						return nil, bad("log %q: time: %v", key, err)
					}
					used += n
					lg.Time = tm
					if len(val)-used < 2 {
						return nil, bad("log %q: tz truncated", key)
					}
					lg.TZ = int16(binary.BigEndian.Uint16(val[used:]))
					used += 2
					if lg.Message, err = str("message"); err != nil {
						return nil, err
					}
				default:
					return nil, bad("log %q: value type %d", key, extra)
				}
				t.Logs = append(t.Logs, lg)
			case 'o':
				o := Obj{Prefix: []byte(key)}
				cnt := uint64(extra)
				if extra == 0 {
					c, n, err := getVarint(val)
					if err != nil {
						return nil, bad("obj %x: count: %v", key, err)
					}
					used = n
					cnt = c
					if c > 0 && c < 8 {
						// legal but non-canonical; accept
					}
				}
				var last uint64
				for i := uint64(0); i < cnt; i++ {
					p, n, err := getVarint(val[used:])
					if err != nil {
						return nil, bad("obj %x: position %d: %v", key, i, err)
					}
					used += n
					if i > 0 {
						if p == 0 {
							return nil, bad("obj %x: zero position delta", key)
						}
						p += last
					}
					last = p
					o.Positions = append(o.Positions, p)
				}
				t.Objs = append(t.Objs, o)
			case 'i':
				if extra != 0 {
					return nil, bad("index record %q: value type %d", key, extra)
				}
				p, n, err := getVarint(val)
				if err != nil {
					return nil, bad("index record %q: position: %v", key, err)
				}
				used = n
				recs = append(recs, idxRec{key, p})
			}
			pos += used
		}
		if pos != rstart {
			return nil, bad("block at %d: records end at %d, restart table starts at %d", off, pos, rstart)
		}
		if len(restarts) != 0 {
			return nil, bad("block at %d: %d restart offsets do not point at records", off, len(restarts))
		}
		if blk.Records == 0 {
			return nil, bad("block at %d: no records", off)
		}

		// where does the next block begin?
		end := off + disk
		next := end
		if end < uint64(len(body)) && body[end] == 0 {
			if typ == 'g' {
				return nil, bad("log block at %d is followed by padding", off)
			}
			if t.BlockSize == 0 {
				return nil, bad("block at %d: padding in a table with block size 0", off)
			}
			next = off + uint64(t.BlockSize)
			if next > uint64(len(body)) {
				return nil, bad("block at %d: padding runs into the footer", off)
			}
			for _, c := range body[end:next] {
				if c != 0 {
					return nil, bad("block at %d: non-zero padding", off)
				}
			}
			if next == uint64(len(body)) {
				return nil, bad("block at %d: last block is padded", off)
			}
			blk.Padding = next - end
		}
		idx := len(t.Blocks)
		t.Blocks = append(t.Blocks, blk)
		if typ == 'i' {
			cur.index = append(cur.index, idx)
			idxRecs[idx] = recs
		} else {
			cur.data = append(cur.data, idx)
		}
		if next < uint64(len(body)) && typ != 'g' && body[next] != 'g' {
			if blk.Padding > 0 {
				nonLogBoundariesPadded++
			} else if t.BlockSize == 0 || uint64(L) != uint64(t.BlockSize) {
				nonLogBoundariesUnpadded++
			}
		}
		lastTyp = typ
		off = next
	}
	if nonLogBoundariesPadded > 0 && nonLogBoundariesUnpadded > 0 {
		return nil, bad("mixed padded and unpadded block boundaries")
	}
	t.Unaligned = nonLogBoundariesUnpadded > 0

	// ---- footer positions and index structure
	want := map[byte][2]uint64{} // section -> (first block, index top)
	for _, s := range sects {
		var top uint64
		children := s.data
		pos := 0
		levels := 0
		for pos < len(s.index) {
			// consume index blocks until all children are covered
			ci := 0
			start := pos
			for ci < len(children) {
				if pos >= len(s.index) {
					return nil, bad("section %c: index level %d covers %d of %d child blocks", s.typ, levels+1, ci, len(children))
				}
				for _, r := range idxRecs[s.index[pos]] {
					if ci >= len(children) {
						return nil, bad("section %c: index level %d has more entries than child blocks", s.typ, levels+1)
					}
					cb := t.Blocks[children[ci]]
					if r.off != cb.Off {
						return nil, bad("section %c: index level %d entry %d points at %d, child block is at %d", s.typ, levels+1, ci, r.off, cb.Off)
					}
					if r.key != cb.LastKey {
						return nil, bad("section %c: index level %d entry %d has key %q, child's last key is %q", s.typ, levels+1, ci, r.key, cb.LastKey)
					}
					ci++
				}
				pos++
			}
			levels++
			top = t.Blocks[s.index[start]].Off
			children = s.index[start:pos]
		}
		t.IndexLevels[s.typ] = levels
		want[s.typ] = [2]uint64{t.Blocks[s.data[0]].Off, top}
	}
	if _, ok := want['r']; !ok && refIdx != 0 {
		return nil, bad("footer has a ref index position but there is no ref section")
	}
	if w := want['r']; w[1] != refIdx {
		return nil, bad("footer ref index position %d, want %d", refIdx, w[1])
	}
	if w, ok := want['o']; ok {
		if w[0] != objPos || w[1] != objIdx {
			return nil, bad("footer obj positions (%d,%d), want (%d,%d)", objPos, objIdx, w[0], w[1])
		}
	} else if objPos != 0 || objIdx != 0 {
		return nil, bad("footer names an obj section that does not exist")
	}
	if w, ok := want['g']; ok {
		// a log section starting at offset 0 is recorded as position 0
		if w[0] != logPos || w[1] != logIdx {
			return nil, bad("footer log positions (%d,%d), want (%d,%d)", logPos, logIdx, w[0], w[1])
		}
	} else if logPos != 0 || logIdx != 0 {
		return nil, bad("footer names a log section that does not exist")
	}

	// ---- object index contents
	if len(t.Objs) > 0 {
		if t.ObjIDLen < 1 || t.ObjIDLen > t.HashSize {
			return nil, bad("object id abbreviation length %d", t.ObjIDLen)
		}
		wantPos := map[string][]uint64{}
		for _, r := range t.Refs {
			for _, v := range [][]byte{r.Value, r.Peeled} {
				if v == nil {
					continue
				}
				k := string(v[:t.ObjIDLen])
				l := wantPos[k]
				if len(l) == 0 || l[len(l)-1] != r.Block {
					wantPos[k] = append(l, r.Block)
				}
			}
		}
		for k, l := range wantPos {
			// a ref's value and peeled value may interleave blocks; normalise
			wantPos[k] = uniqSorted(l)
		}
		seen := map[string]bool{}
		for _, o := range t.Objs {
			if len(o.Prefix) != t.ObjIDLen {
				return nil, bad("obj record %x: key length %d, footer says %d", o.Prefix, len(o.Prefix), t.ObjIDLen)
			}
			wp, ok := wantPos[string(o.Prefix)]
			if !ok {
				return nil, bad("obj record %x: no ref has an object id with this prefix", o.Prefix)
			}
			seen[string(o.Prefix)] = true
			if o.Positions == nil {
				continue // omitted: readers scan
			}
			if fmt.Sprint(o.Positions) != fmt.Sprint(wp) {
				return nil, bad("obj record %x: positions %v, ref blocks containing it are %v", o.Prefix, o.Positions, wp)
			}
		}
		for k := range wantPos {
			if !seen[k] {
				return nil, bad("object id prefix %x occurs in refs but not in the object index", k)
			}
		}
	}
	// An object-id length in the footer without an obj section is tolerated: the field is only
	// meaningful together with a section (the Go writer leaves 1 there when an indexed ref section
	// holds no object ids at all, e.g. only symrefs and deletions).
	return t, nil
}

func uniqSorted(l []uint64) []uint64 {
	out := append([]uint64{}, l...)
	for i := 1; i < len(out); i++ {
		for j := i; j > 0 && out[j] < out[j-1]; j-- {
			out[j], out[j-1] = out[j-1], out[j]
		}
	}
	u := out[:0]
	for i, v := range out {
		if i == 0 || v != out[i-1] {
			u = append(u, v)
		}
	}
	return u
}
